"""Lifecycle engine: run one (program, plan) under the instrumented loop and record
everything the lifecycle monitors (C01, C02, C04, C05, C06, C13, C18) judge.

case = {
  'program': <programs DSL>,
  'plan':  [{'at': <int slot> | 'q' | ['listener', <event>, <n>] | ['step', <i>] | ['exit', <state>, <n>], 'act': [kind, arg]}, ...],
  'drain': bool      -- complete the run with final play / owed resumes
  'probe': bool      -- final probing kill from a live end configuration
  'barrage': bool    -- after termination fire every control call / late callbacks
  'listener': bool   -- attach a recording ProcessListener
  'resume': [...]    -- scripted resume values used by the drain, one per wait
}
"""
import asyncio

import plumpy
from plumpy import process_states as ps
from plumpy.process_comms import MESSAGE_TEXT_KEY

from . import generated, programs
from .driver import BudgetExceeded, Driver, describe_errors
from .programs import ProgError, _jsonable

TERMINAL = ('finished', 'excepted', 'killed')


def describe_exc(exc):
    if exc is None:
        return None
    if isinstance(exc, ProgError):
        return ['ProgError', exc.tag]
    if isinstance(exc, plumpy.KilledError):
        # (the message is a mapping: its text must not depend on the order of the keys, which a YAML round trip changes)
        arg = exc.args[0] if exc.args else None
        return ['KilledError', str(dict(sorted(arg.items()))) if isinstance(arg, dict) else str(exc)]
    return [type(exc).__name__, str(exc)[:200]]


def describe_future(fut):
    if fut is None:
        return None
    if not fut.done():
        return ['pending']
    if fut.cancelled():
        return ['cancelled']
    exc = fut.exception()
    if exc is not None:
        return ['exception', describe_exc(exc)]
    return ['result', _jsonable(fut.result())]


def try_call(fn):
    try:
        return ['ok', _jsonable(fn())]
    except BaseException as exc:  # noqa: BLE001
        return ['raise', describe_exc(exc)]


def phase_of(proc, task_started=True):
    """Process configuration at a delivery point (coverage / signatures only, never a verdict)."""
    parts = [proc.state.value if proc.state is not None else 'none']
    if not task_started:
        parts.append('unstarted')
    if getattr(proc, '_stepping', False):
        parts.append('stepping')
    if getattr(proc, '_transitioning', False):
        parts.append('transitioning')
    if proc.paused:
        parts.append('paused')
    if getattr(proc, '_pausing', None) is not None:
        parts.append('pausing')
    if getattr(proc, '_killing', None) is not None:
        parts.append('killing')
    wf = getattr(getattr(proc, '_state', None), '_waiting_future', None)
    if wf is not None and wf.done():
        parts.append('woken')
    return '/'.join(parts)


def views(proc):
    v = {
        'state': proc.state.value,
        'terminated': proc.has_terminated(),
        'paused': proc.paused,
        'status': proc.status,
        'killed': proc.killed(),
        'is_killing': proc.is_killing,
        'is_successful': proc.is_successful,
        'is_excepted': proc.is_excepted,
        'future': describe_future(proc.future()),
        'result': try_call(proc.result),
        'successful': try_call(proc.successful),
        'exception': describe_exc(proc.exception()),
        'killed_msg': try_call(proc.killed_msg),
        'outputs': _jsonable(proc.outputs),
    }
    fut = proc.future()
    if fut.done() and not fut.cancelled() and fut.exception() is not None and proc.exception() is not None:
        v['future_exc_is_state_exc'] = fut.exception() is proc.exception()
    try:
        proc.add_cleanup(_noop)
        v['closed'] = False
    except plumpy.ClosedError:
        v['closed'] = True
    except BaseException as exc:  # noqa: BLE001
        v['closed'] = 'error:%s' % type(exc).__name__
    return v


def _noop():
    return None


class RecListener(plumpy.ProcessListener):
    EVENTS = ('running', 'waiting', 'paused', 'played', 'finished', 'excepted', 'killed')

    def __init__(self, run, channel='listener', raising=False):
        super().__init__()
        self.run = run
        self.counts = {}
        self.channel = channel
        self.raising = raising

    def _ev(self, name, proc, *info):
        n = self.counts.get(name, 0) + 1
        self.counts[name] = n
        self.run.rec.ev(self.channel, name, _jsonable(list(info)), plumpy.Process.current() is proc)
        if self.channel == 'listener':
            self.run._trigger(['listener', name, n])
        if self.raising == 'checkpointing' and name in ('finished', 'killed', 'excepted'):
            # an observer that checkpoints the process when it is told about the ending; the process's own save fails (before it
            # reaches the base class), which the observer copes with: nobody raises towards the process
            proc._fail_save = RuntimeError('this process cannot be saved just now')
            try:
                plumpy.Bundle(proc)
            except RuntimeError:
                self.run.rec.ev(self.channel + '-save-failed', name)
        if self.raising == 'detaching' and name in ('finished', 'killed', 'excepted'):
            # a one-shot observer group: whoever is told of the ending first takes all the others off the process -- they were
            # registered when the ending was announced, so each of them is told all the same
            for other in [self.run.listener] + list(getattr(self.run, 'listeners_more', [])):
                if other is not self:
                    proc.remove_process_listener(other)
        if self.raising == 'base-terminal' and name in ('finished', 'killed', 'excepted'):
            # an observer that, told of the ending, looks at a cancelled future: that raises asyncio.CancelledError, which is not an
            # Exception -- the ending it was told about stays the ending all the same
            import asyncio as _asyncio
            raise _asyncio.CancelledError('the observer looked at a cancelled future')
        if self.raising is True or (self.raising == 'terminal' and name in ('finished', 'killed', 'excepted')):
            # a broken observer: plumpy logs this and carries on with the other listeners
            if name in ('finished', 'killed', 'excepted') and self.channel != 'listener':
                raise _Unprintable()  # ... whatever the exception looks like (this one cannot even be printed)
            raise RuntimeError('listener %s is broken (%s)' % (self.channel, name))

    def on_process_running(self, process):
        self._ev('running', process)

    def on_process_waiting(self, process):
        self._ev('waiting', process)

    def on_process_paused(self, process):
        self._ev('paused', process)

    def on_process_played(self, process):
        self._ev('played', process)

    def on_output_emitted(self, process, output_port, value, dynamic):
        self._ev('output', process, output_port, value, dynamic)

    def on_process_finished(self, process, outputs):
        self._ev('finished', process, outputs)

    def on_process_excepted(self, process, reason):
        self._ev('excepted', process, reason)

    def on_process_killed(self, process, msg):
        self._ev('killed', process, msg)


class _Unprintable(Exception):
    def __str__(self):
        raise IndexError('this exception has no printable form')

    __repr__ = __str__


def _failing_cleanup(which='function'):
    raise RuntimeError('cleanup %s fails' % which)


def _cancelled_cleanup():
    import asyncio
    raise asyncio.CancelledError('the cleanup looked at a cancelled future')


class _FailingCleanup:
    def __call__(self):
        raise RuntimeError('cleanup object fails')


class _OneShotWatcher:
    """Watches the ENTERED_STATE hook of a process through a bound method and removes that method again once the process has ended."""

    def __init__(self, proc):
        from plumpy.base.state_machine import StateEventHook
        self.hook = StateEventHook.ENTERED_STATE
        self.seen = 0
        proc.add_state_event_callback(self.hook, self.entered)

    def entered(self, machine, hook, from_state):
        self.seen += 1
        if machine.has_terminated():
            machine.remove_state_event_callback(self.hook, self.entered)


class OwnWaiting(ps.Waiting):
    """A WAITING state class of an application's own"""


generated.register(OwnWaiting, 'OwnWaiting')


class Run:
    """One execution.  After ``execute()`` the attributes hold the complete record."""

    def __init__(self, case, budget=3000):
        self.case = case
        self.budget = budget
        self.rec = programs.Recorder()
        self.acts = []  # dicts, one per applied action
        self.futs = []  # (act index, future object)
        self.qpoints = []  # quiescent points
        self.inconclusive = None
        self.proc = None
        self.task = None
        self._last_obs = None
        self._slot_plan = {}
        self._q_plan = []
        self._trig_plan = []
        self.undelivered = []
        self.step_entries = 0
        self.notes = []

    # -- plan handling ---------------------------------------------------------------------
    def _load_plan(self):
        for n, entry in enumerate(self.case.get('plan', ())):
            at = entry['at']
            item = (n, entry['act'])
            if at == 'q':
                self._q_plan.append(item)
            elif at == 'q+':
                # back to back with the previous quiescent-point action (no loop iteration in between)
                self._q_plan.append(item + ('glued',))
            elif isinstance(at, int):
                self._slot_plan.setdefault(at, []).append(item)
            else:
                self._trig_plan.append([list(at), item, False])

    def _trigger(self, key):
        for trig in self._trig_plan:
            if not trig[2] and trig[0] == key:
                trig[2] = True
                self.apply(trig[1][1], via='/'.join(str(k) for k in key), plan_idx=trig[1][0])

    def _on_exit(self, proc, label):
        # from inside the process's own (non-raising) exit hook, i.e. in the middle of a transition
        counts = self.__dict__.setdefault('_exit_counts', {})
        counts[label] = counts.get(label, 0) + 1
        self._trigger(['exit', label, counts[label]])

    def _on_step(self, proc, i):
        self.step_entries += 1
        self._trigger(['step', i])

    # -- sampling ------------------------------------------------------------------------
    def sample(self, where):
        proc = self.proc
        obs = (proc.state.value, proc.paused, proc.has_terminated(), proc.future().done())
        if obs[2]:
            # terminal fingerprint through public accessors: any later change of the recorded outcome is a change of state
            obs = obs + (describe_exc(proc.exception()), try_call(proc.result)[1] if obs[0] == 'finished' else None,
                         try_call(proc.killed_msg)[1] if obs[0] == 'killed' else None)
        if obs != self._last_obs:
            self._last_obs = obs
            self.rec.ev('obs', where, *obs)

    def nproc_events(self):
        """Logical position of the process: number of its own (state + trace) events so far."""
        return sum(1 for e in self.rec.events if e[0] in ('state', 'trace', 'hook'))

    def _fire_event_triggers(self):
        n = None
        for trig in self._trig_plan:
            if not trig[2] and trig[0][0] == 'events':
                if n is None:
                    n = self.nproc_events()
                if n >= trig[0][1]:
                    trig[2] = True
                    self.apply(trig[1][1], via='events%d' % trig[0][1], plan_idx=trig[1][0])

    def _on_slot(self, slot):
        self.sample(slot)
        for item in self._slot_plan.pop(slot, ()):
            self.apply(item[1], plan_idx=item[0])
        self._fire_event_triggers()

    # -- actions -------------------------------------------------------------------------
    def apply(self, act, via='slot', plan_idx=None):
        proc = self.proc
        kind = act[0]
        arg = act[1] if len(act) > 1 else None
        entry = {
            'n': len(self.acts), 'plan_idx': plan_idx, 'slot': self.drv.slot, 'via': via, 'kind': kind, 'arg': _jsonable(arg),
            'phase': phase_of(proc, self.task is not None),
            'live_before': not proc.has_terminated(), 'state_before': proc.state.value, 'paused_before': proc.paused,
            'status_before': proc.status, 'nstate': sum(1 for e in self.rec.events if e[0] == 'state'),
            'nwait': sum(1 for e in self.rec.events if e[0] == 'state' and e[2] == 'waiting'),
        }
        self.acts.append(entry)
        self.rec.ev('act', entry['n'], kind, _jsonable(arg), entry['phase'])
        foreign = None
        if self.case.get('foreign_loop_outside') and not self.drv.loop.is_running():
            # the request is made by code whose current event loop is not the loop the process was built for (and which is not
            # running at this moment): whatever the call creates belongs to the process's loop all the same
            import asyncio
            foreign = asyncio.new_event_loop()
            asyncio.set_event_loop(foreign)
            entry['foreign_loop_current'] = True
        try:
            return self._apply(entry, act, kind, arg, proc)
        finally:
            if foreign is not None:
                import asyncio
                asyncio.set_event_loop(self.drv.loop)
                foreign.close()

    def _apply(self, entry, act, kind, arg, proc):
        try:
            if kind == 'pause':
                ret = proc.pause(arg)
            elif kind == 'play':
                ret = proc.play()
            elif kind == 'kill':
                ret = proc.kill(arg)
            elif kind == 'resume':
                ret = proc.resume(*([] if arg is None else [arg[0]]))
            elif kind == 'fail':
                exc = ProgError(arg)
                ret = proc.fail(exc, None)
            elif kind == 'cancel_future':
                ret = proc.future().cancel()
            elif kind == 'foreign_exception':
                # somebody who holds the process's future resolves it with an exception of their own (misuse, but possible: the future is
                # handed out); whatever the process makes of it, it does not leave a terminal state once it is in one
                fut = proc.future()
                ret = False
                if not fut.done():
                    fut.set_exception(ProgError(arg))
                    ret = True
            elif kind == 'rpc_pause':
                # the pause arrives as a message (what a communicator delivers); the reply future is what the sender gets
                from plumpy.process_comms import MessageBuilder
                ret = proc.message_receive(None, MessageBuilder.pause(arg))
            elif kind == 'cancel_ret':
                # the requester withdraws: cancels the future that its most recent kill() / pause() (arg) handed back
                target = next((n for n, f in reversed(self.futs) if self.acts[n]['kind'] == arg), None)
                entry['target'] = target
                ret = dict(self.futs)[target].cancel() if target is not None else None
            elif kind == 'soon_kill':
                # a watchdog callback of the process (``call_soon``) that kills it when it runs -- later, e.g. while the process waits
                proc.call_soon(lambda: self.apply(['kill', arg], via='callback'))
                ret = None
            elif kind in ('soon_ok', 'soon_raise'):
                cb = programs._make_cb(proc, 'raise' if kind == 'soon_raise' else 'ok', arg)
                cb.handle = proc.call_soon(cb)
                ret = None
            elif kind == 'abort_task':
                # fault: whoever drives the process gives up (e.g. asyncio.wait_for timed out) -> the stepping task is cancelled
                ret = self.task.cancel() if self.task is not None else None
                self.aborted_tasks = getattr(self, 'aborted_tasks', []) + [self.task]
            elif kind == 'restart_task':
                self.task = self.drv.loop.create_task(proc.step_until_terminated())
                ret = None
            elif kind == 'reincarnate' and proc.has_terminated():
                ret = 'terminated'  # (nothing to carry on)
            elif kind == 'reincarnate':
                # the running instance is lost (its stepping task is cancelled, the object abandoned) and the process goes on in a new
                # instance recreated from a checkpoint taken at this very moment, stepped by a new task
                observers = [x for x in [getattr(self, 'listener', None)] + list(getattr(self, 'listeners_more', [])) if x is not None]
                for obs_ in observers:
                    proc.remove_process_listener(obs_)
                bundle = plumpy.Bundle(proc, dereference=isinstance(proc, plumpy.ContextMixin))
                if self.task is not None:
                    self.task.cancel()
                saved, programs.CURRENT_REC = programs.CURRENT_REC, self.rec
                try:
                    new = bundle.unbundle(plumpy.LoadSaveContext(loop=self.drv.loop))
                finally:
                    programs.CURRENT_REC = saved
                self.abandoned = getattr(self, 'abandoned', []) + [proc]
                for obs_ in observers:
                    new.add_process_listener(obs_)
                new.add_cleanup(lambda: self.rec.ev('cleanup'))
                self.proc = proc = new
                self.reincarnations = getattr(self, 'reincarnations', 0) + 1
                self.early_future = None  # (it was handed out by the instance that is gone)
                self.task = self.drv.loop.create_task(new.step_until_terminated())
                ret = None
            elif kind == 'step_again':
                t2 = self.drv.loop.create_task(proc.step_until_terminated())
                self.extra_tasks.append(t2)
                ret = None
            else:
                raise AssertionError(kind)
            if asyncio.isfuture(ret) or hasattr(ret, 'add_done_callback'):
                entry['ret'] = ['future']
                self.futs.append((entry['n'], ret))
                if asyncio.isfuture(ret):
                    # whoever is handed this future awaits it in the loop of the process
                    entry['ret_in_process_loop'] = ret.get_loop() is self.drv.loop
            else:
                entry['ret'] = ['value', _jsonable(ret)]
        except BaseException as exc:  # noqa: BLE001
            entry['ret'] = ['raise', describe_exc(exc)]
        proc = self.proc  # (a reincarnation replaces the instance)
        entry['state_after'] = proc.state.value
        entry['paused_after'] = proc.paused
        entry['status_after'] = proc.status
        entry['term_after'] = proc.has_terminated()
        self.rec.ev('acted', entry['n'], entry['ret'][0], entry['state_after'], entry['paused_after'])
        self.sample('act%d' % entry['n'])
        return entry

    # -- quiescence ---------------------------------------------------------------------
    def _pump(self):
        try:
            self.drv.pump()
        except BudgetExceeded:
            self.inconclusive = 'budget'
            return False
        self.sample('q')
        proc = self.proc
        self.qpoints.append({
            'slot': self.drv.slot, 'nacts': len(self.acts), 'state': proc.state.value, 'paused': proc.paused,
            'terminated': proc.has_terminated(), 'task_done': self.task.done() if self.task is not None else None,
            'futs': [[n, describe_future(f)] for n, f in self.futs],
            'nev': len(self.rec.events),
        })
        return True

    # -- main ------------------------------------------------------------------------------
    def execute(self):
        case = self.case
        self._load_plan()
        self.extra_tasks = []
        with Driver(self.budget) as drv:
            self.drv = drv
            cls = self._make_class()
            if case.get('own_waiting_state'):
                # the application plugs in a WAITING state class of its own (get_state_classes), a subclass of the library's -- as the
                # library's own WorkChain does: whatever is valid "from Waiting" is valid from it
                base_cls = cls

                class WithOwnWaiting(base_cls):
                    @classmethod
                    def get_state_classes(cls_):
                        states = super().get_state_classes()
                        states[ps.ProcessState.WAITING] = OwnWaiting
                        return states

                cls = WithOwnWaiting
            if case.get('late_fault'):
                # fault: the application's on_terminated fails (once) after the library's part of it has run, i.e. when the process is in its
                # terminal state and closed already
                class LateFault(cls):
                    def on_terminated(self):
                        super().on_terminated()
                        if not getattr(self, '_late_fault_fired', False):
                            self._late_fault_fired = True
                            raise RuntimeError('late fault in on_terminated')

                cls = LateFault
            programs.CURRENT_REC = self.rec
            try:
                self.proc = proc = self._construct(cls, drv.loop)
            finally:
                programs.CURRENT_REC = None
            self.rec.hooks['step'] = self._on_step
            self.rec.hooks['exit'] = self._on_exit
            self.early_future = proc.future()  # what a waiter who asked before the run holds
            proc.add_cleanup(lambda: self.rec.ev('cleanup'))
            # ... and one bound method registered twice (a resource released once per unit that was taken): two registrations, two calls
            proc.add_cleanup(self._release_one)
            proc.add_cleanup(self._release_one)
            if case.get('cleanup_chain'):
                # a cleanup that, when it runs, registers one more (accepted by add_cleanup, so it has to run as well, once)
                proc.add_cleanup(lambda: (self.rec.ev('cleanup-first'), proc.add_cleanup(lambda: self.rec.ev('cleanup-late'))))
            if case.get('failing_cleanups'):
                # cleanups that fail, of every callable shape add_cleanup() is given in practice: a function, a functools.partial (what
                # Process.init registers for its subscriptions) and a callable object -- tolerated by the process, one by one
                import functools
                proc.add_cleanup(_failing_cleanup)
                proc.add_cleanup(functools.partial(_failing_cleanup, 'partial'))
                proc.add_cleanup(_FailingCleanup())
                if case.get('failing_cleanups') == 'base':
                    # ... and one that raises asyncio's CancelledError (it looked at a cancelled future): not an Exception, a failing
                    # cleanup all the same -- the ones registered after it run as well
                    proc.add_cleanup(_cancelled_cleanup)
                proc.add_cleanup(lambda: self.rec.ev('cleanup-after-failing'))
            if case.get('listener', True):
                # ('raising-terminal': broken only in its handling of the three endings)
                raising = {'raising': True, 'raising-terminal': 'terminal', 'checkpointing': 'checkpointing', 'raising-base': 'base-terminal', 'detaching': 'detaching'}.get(case.get('listener'), False)
                self.listener = RecListener(self, raising=raising)
                proc.add_process_listener(self.listener)
                if case.get('listener') == 'twice':
                    # registering a listener again changes nothing; one that was added twice and removed once is gone
                    proc.add_process_listener(self.listener)
                    self.listeners_more = [RecListener(self, 'listener_removed')]
                    proc.add_process_listener(self.listeners_more[0])
                    proc.add_process_listener(self.listeners_more[0])
                    proc.remove_process_listener(self.listeners_more[0])
                if case.get('listener') == 'detaching':
                    # ... and a watcher of the state machine's own event hooks, a bound method that takes itself off when it sees the ending
                    _OneShotWatcher(proc)
                if raising:
                    # two more observers, all of them broken: whatever the iteration order, each must still be told
                    self.listeners_more = [RecListener(self, 'listener%d' % k, raising) for k in (2, 3)]
                    for extra in self.listeners_more:
                        proc.add_process_listener(extra)
            if case.get('oneshot'):
                # an observer's one-shot state callback ("tell me once when it has terminated" / "... when it first moves"): it takes
                # itself off the hook from inside the notification (registered last, so that its removal skips nobody else)
                from plumpy.base.state_machine import StateEventHook

                def once(sm, hook, _state, when=case['oneshot']):
                    if when == 'first' or sm.state in (plumpy.ProcessState.FINISHED, plumpy.ProcessState.EXCEPTED, plumpy.ProcessState.KILLED):
                        self.rec.ev('oneshot', sm.state.value)
                        sm.remove_state_event_callback(hook, once)

                proc.add_state_event_callback(StateEventHook.ENTERED_STATE, once)
            self.sample(0)
            for item in self._slot_plan.pop(0, ()):
                self.apply(item[1], plan_idx=item[0])
            self._fire_event_triggers()
            self.task = drv.loop.create_task(proc.step_until_terminated())
            drv.on_slot = self._on_slot
            try:
                self._phases()
            finally:
                drv.on_slot = None
            proc = self.proc  # (a reincarnation replaces the instance)
            # before the harness looks at the outcome itself: has anybody?  (asyncio reports the exception of a future nobody asked
            # for to the handler of the loop when the future is collected)
            try:
                self.future_unretrieved = bool(getattr(proc.future(), '_log_traceback', False))
            except BaseException:  # noqa: BLE001
                self.future_unretrieved = None
            self.final = views(proc)
            self.final_phase = phase_of(proc)
            self.task_info = self._task_info(self.task)
            self.extra_task_info = [self._task_info(t) for t in self.extra_tasks]
            self.fut_info = [[n, describe_future(f)] for n, f in self.futs]
            self.early_future_info = describe_future(self.early_future)
            # tasks that died with an exception report it to the loop's handler only when they are collected: do that now
            if case.get('collect_dead_tasks'):
                import gc
                self._release_for_collection()
                gc.collect()
                try:
                    drv.pump()
                except BudgetExceeded:
                    pass
            self.loop_errors = describe_errors(drv.errors)
            self.loop_error_excs = drv.error_exceptions()
            self.slots = drv.slot
            self.trace = list(proc.trace)
            self.extra = self._collect_extra()
        return self

    def _make_class(self):
        base = programs.ProgBaseReq if self.case.get('req_output') else (programs.ProgOwnStatus if self.case.get('own_status') else None)
        return programs.program_class(self.case['program'], base)

    def _construct(self, cls, loop):
        if self.case.get('recreate_cancelled'):
            return self._recreated_with_cancelled_future(cls, loop, None)
        if not self.case.get('recreate'):
            return cls(loop=loop)
        # the process under test is one recreated from the checkpoint of a freshly created process (load_instance_state
        # and init() run, __init__ does not)
        saved, programs.CURRENT_REC = programs.CURRENT_REC, None
        try:
            bundle = plumpy.Bundle(cls(loop=loop))
        finally:
            programs.CURRENT_REC = saved
        return bundle.unbundle(plumpy.LoadSaveContext(loop=loop))

    def _recreated_with_cancelled_future(self, cls, loop, communicator, **kwargs):
        """The process under test is one recreated from the checkpoint of a process whose future had just been cancelled by
        somebody who held it (the kill this asks for had not been carried out yet): it is alive, its future is cancelled."""
        saved, programs.CURRENT_REC = programs.CURRENT_REC, None
        try:
            first = cls(loop=loop, **kwargs)
            first.future().cancel()
            bundle = plumpy.Bundle(first)
        finally:
            programs.CURRENT_REC = saved
        # (the first instance is abandoned: the kill it had scheduled for itself finds nothing to do with the process under test)
        first.kill = lambda *a, **k: False
        ctx = plumpy.LoadSaveContext(loop=loop) if communicator is None else plumpy.LoadSaveContext(loop=loop, communicator=communicator)
        return bundle.unbundle(ctx)

    def _release_one(self):
        self.rec.ev('cleanup-release')

    def _collect_extra(self):
        return {}

    def _release_for_collection(self):
        """Drop references of the harness that keep finished tasks alive (e.g. tracebacks of exceptions it holds on to)."""

    @staticmethod
    def _task_info(task):
        if task is None:
            return None
        if not task.done():
            return ['pending']
        if task.cancelled():
            return ['cancelled']
        if task.exception() is not None:
            return ['exception', describe_exc(task.exception())]
        return ['done']

    def _phases(self):
        case = self.case
        # phase 1: the plan
        while True:
            if not self._pump():
                return
            rest = sorted(self._slot_plan)
            if rest:
                # slots never reached: deliver at successive quiescent points, in order
                items = self._slot_plan.pop(rest[0])
                self.apply(items[0][1], via='q-late', plan_idx=items[0][0])
                if items[1:]:
                    self._slot_plan[rest[0]] = items[1:]
                continue
            if self._q_plan:
                item = self._q_plan.pop(0)
                self.apply(item[1], via='q', plan_idx=item[0])
                while self._q_plan and len(self._q_plan[0]) > 2:
                    item = self._q_plan.pop(0)
                    self.apply(item[1], via='q', plan_idx=item[0])
                continue
            before = len(self.acts)
            self._fire_event_triggers()
            if len(self.acts) > before:
                continue
            break
        self.undelivered = [t[0] for t in self._trig_plan if not t[2]]
        self.plan_done_q = len(self.qpoints) - 1
        # phase 2: drain
        self.stuck = None
        if case.get('drain', True):
            script = list(case.get('resume', ()))
            for _round in range(40):
                if self.proc.has_terminated():
                    break
                owed = self._owed(script)
                if owed is None:
                    self.stuck = {'state': self.proc.state.value, 'paused': self.proc.paused, 'phase': phase_of(self.proc)}
                    break
                self.apply(owed, via='drain')
                if not self._pump():
                    return
        self.drain_done_q = len(self.qpoints) - 1
        # phase 3: probing kill
        if case.get('probe', False) and not self.proc.has_terminated():
            self.apply(['kill', 'probe'], via='probe')
            if not self._pump():
                return
        # phase 4: barrage on a terminated process
        if case.get('barrage', False) and self.proc.has_terminated():
            self.barrage_from = len(self.acts)
            for act in (['pause', 'late'], ['play'], ['kill', 'late'], ['resume', ['late']], ['fail', 'late-fail'],
                        ['soon_ok', 'late-ok'], ['soon_raise', 'late-raise'], ['step_again'], ['cancel_future']):
                if act[0] in case.get('barrage_skip', ()):
                    continue
                self.apply(act, via='barrage')
                if not self._pump():
                    return

    def _owed(self, script):
        """What the scenario still owes the process at a quiescent point (None = nothing)."""
        proc = self.proc
        if self.task is not None and self.task.done() and not proc.has_terminated():
            if any(t is self.task for t in getattr(self, 'aborted_tasks', ())):
                return ['restart_task']  # the stepping task was aborted: somebody steps the process again
            # the stepping task ended on its own although the process is live (it died): nobody owes the process a new one
            self.task_died = self._task_info(self.task)
            return None
        if proc.paused:
            return ['play']
        if proc.state == ps.ProcessState.WAITING:
            nwait = sum(1 for e in self.rec.events if e[0] == 'state' and e[2] == 'waiting')
            key = 'drained_wait_%d' % nwait
            tries = self.__dict__.setdefault('_drain_tries', {})
            tries[key] = tries.get(key, 0) + 1
            if tries[key] > 2:
                return None  # resumed twice at quiescence and still in the same wait
            idx = nwait - 1
            val = script[idx] if idx < len(script) else ['auto%d' % idx]
            return ['resume', val]
        return None

    # -- export ----------------------------------------------------------------------------
    def record(self):
        return {
            'case': self.case, 'events': self.rec.events, 'acts': self.acts, 'qpoints': self.qpoints,
            'final': getattr(self, 'final', None), 'task': getattr(self, 'task_info', None),
            'extra_tasks': getattr(self, 'extra_task_info', None), 'futs': getattr(self, 'fut_info', None),
            'future_unretrieved': getattr(self, 'future_unretrieved', None), 'loop_errors': getattr(self, 'loop_errors', None), 'stuck': getattr(self, 'stuck', None),
            'inconclusive': self.inconclusive, 'trace': getattr(self, 'trace', None), 'slots': getattr(self, 'slots', None),
            'undelivered': self.undelivered, 'final_phase': getattr(self, 'final_phase', None),
            'plan_done_q': getattr(self, 'plan_done_q', None), 'drain_done_q': getattr(self, 'drain_done_q', None),
            'barrage_from': getattr(self, 'barrage_from', None), 'extra': getattr(self, 'extra', None),
            'early_future': getattr(self, 'early_future_info', None),
        }


def run_case(case, budget=3000):
    return Run(case, budget).execute().record()


def kill_text(msg):
    if isinstance(msg, dict):
        return msg.get(MESSAGE_TEXT_KEY)
    return msg
