"""plumpy runtime-verification harness (see /verif/DESIGN.md).

Importing this package puts ``$PV_REPO/src`` (default /repo/src) at the front of
``sys.path`` so every check executes the *current working tree* of the repository.
"""
import logging
import os
import sys
import warnings

REPO = os.environ.get('PV_REPO', '/repo')
_SRC = os.path.join(REPO, 'src')
if _SRC not in sys.path[:1]:
    sys.path.insert(0, _SRC)
VERIF = os.path.dirname(os.path.dirname(os.path.abspath(__file__)))

# guard recorded in MANIFEST.hooks (no source hooks exist; the variable is still exported so
# that a later hook commit is picked up by every check without touching the checks)
os.environ.setdefault('PLUMPY_VERIF', '1')

logging.disable(logging.CRITICAL)
warnings.simplefilter('ignore')
