"""In-process communicator following the RabbitMQ communicator's observable protocol (DESIGN.md section 2.4).

* recipient identifiers are routing keys: compared as strings;
* subscribers are called positionally: rpc/task (comm, msg), broadcast (comm, body, sender, subject, correlation_id);
* a broadcast subscriber that raises is logged and swallowed;
* rpc_send returns a kiwipy.Future resolving to the value, or -- when the subscriber answered with a future -- to a second
  future that resolves to the fully unwrapped outcome (value, RemoteException, cancellation);
* task_send goes to the first subscriber that does not raise TaskRejected; a reply future failing with TaskRejected counts as rejected.
It adds a programmable ``broadcast_send`` failure (the i-th call raises) and a log of everything sent.
"""
import kiwipy
from kiwipy import communications as kc


def unwrap_into(result, target):
    if isinstance(result, kiwipy.Future):
        def done(fut):
            if fut.cancelled():
                target.cancel()
                return
            exc = fut.exception()
            if exc is not None:
                if isinstance(exc, kiwipy.TaskRejected):
                    target.set_exception(exc)
                else:
                    wrapped = kiwipy.RemoteException(repr(exc))
                    wrapped.__cause__ = exc
                    target.set_exception(wrapped)
                return
            unwrap_into(fut.result(), target)

        result.add_done_callback(done)
    else:
        target.set_result(result)


class RmqShaped(kc.CommunicatorHelper):
    def __init__(self):
        super().__init__()
        self.fail_broadcast = {}   # 1-based index of broadcast_send call -> exception to raise
        self.nbroadcast = 0
        self.sent = []             # log: ['rpc', recipient, msg] | ['broadcast', sender, subject] | ['task', type]
        self.receiver_errors = []

    # ``own_ids``: the communicator hands out subscription handles of its own ('rpc-1', 'bc-2', ...) instead of echoing the identifier it
    # was given, as the interface allows ("in all cases the identifier will be returned"); a subscription is given up with that handle
    def add_rpc_subscriber(self, subscriber, identifier=None):
        ident = super().add_rpc_subscriber(subscriber, identifier)
        if not getattr(self, 'own_ids', False):
            return ident
        self._handles = getattr(self, '_handles', {})
        handle = 'rpc-%d' % (len(self._handles) + 1)
        self._handles[handle] = ident
        return handle

    def add_broadcast_subscriber(self, subscriber, identifier=None):
        # (fault: the broker does not answer the request for the subscription in time -- it was not made)
        exc, self.fail_add_broadcast = getattr(self, 'fail_add_broadcast', None), None
        if exc is not None:
            raise exc
        ident = super().add_broadcast_subscriber(subscriber, identifier)
        if not getattr(self, 'own_ids', False):
            return ident
        self._handles = getattr(self, '_handles', {})
        handle = 'bc-%d' % (len(self._handles) + 1)
        self._handles[handle] = ident
        return handle

    def remove_broadcast_subscriber(self, identifier):
        if getattr(self, 'own_ids', False):
            if not str(identifier).startswith('bc-') or identifier not in self._handles:
                raise ValueError("Broadcast subscriber '%s' unknown" % (identifier,))
            identifier = self._handles.pop(identifier)
        super().remove_broadcast_subscriber(identifier)

    def remove_rpc_subscriber(self, identifier):
        if getattr(self, 'own_ids', False):
            if not str(identifier).startswith('rpc-') or identifier not in self._handles:
                raise ValueError("Unknown subscriber '%s'" % (identifier,))
            identifier = self._handles.pop(identifier)
        # (fault: the request reaches the broker, the confirmation is lost -- the caller sees a timeout / closed connection)
        super().remove_rpc_subscriber(identifier)
        exc, self.fail_remove_rpc = getattr(self, 'fail_remove_rpc', None), None
        if exc is not None:
            raise exc

    def rpc_send(self, recipient_id, msg):
        self._ensure_open()
        self.sent.append(['rpc', str(recipient_id), msg])
        try:
            subscriber = self._rpc_subscribers[str(recipient_id)]
        except KeyError:
            raise kiwipy.UnroutableError("Unknown rpc recipient '%s'" % recipient_id)
        outer = kiwipy.Future()
        try:
            result = subscriber(self, msg)
            self.last_rpc_result = result  # what the subscriber handed back (a communicator may give exactly this to the sender)
        except Exception as exc:  # noqa: BLE001
            wrapped = kiwipy.RemoteException(repr(exc))
            wrapped.__cause__ = exc
            outer.set_exception(wrapped)
            return outer
        if isinstance(result, kiwipy.Future):
            inner = kiwipy.Future()
            unwrap_into(result, inner)
            outer.set_result(inner)
        else:
            outer.set_result(result)
        return outer

    def broadcast_send(self, body, sender=None, subject=None, correlation_id=None):
        self._ensure_open()
        self.nbroadcast += 1
        self.sent.append(['broadcast', sender, subject])
        exc = self.fail_broadcast.get(self.nbroadcast)
        if exc is not None:
            raise exc
        for subscriber in list(self._broadcast_subscribers.values()):
            try:
                if getattr(self, 'keyword_delivery', False):
                    # kiwipy.LocalCommunicator hands broadcasts to its subscribers by keyword
                    subscriber(self, body=body, sender=sender, subject=subject, correlation_id=correlation_id)
                else:
                    subscriber(self, body, sender, subject, correlation_id)
            except Exception as err:  # noqa: BLE001  (the RMQ communicator logs and carries on)
                self.receiver_errors.append(repr(err))
        return True

    def task_send(self, task, no_reply=False):
        self._ensure_open()
        self.sent.append(['task', task.get('task') if isinstance(task, dict) else None])
        outer = kiwipy.Future()
        delivered = False
        for subscriber in list(self._task_subscribers.values()):
            try:
                result = subscriber(self, task)
            except kiwipy.TaskRejected:
                continue
            except Exception as exc:  # noqa: BLE001
                wrapped = kiwipy.RemoteException(repr(exc))
                wrapped.__cause__ = exc
                outer.set_exception(wrapped)
                delivered = True
                break
            delivered = True
            if isinstance(result, kiwipy.Future):
                inner = kiwipy.Future()
                unwrap_into(result, inner)
                outer.set_result(inner)
            else:
                outer.set_result(result)
            break
        if not delivered:
            outer.set_exception(kiwipy.TaskRejected('no subscriber accepted the task'))
        if no_reply:
            return None
        return outer
