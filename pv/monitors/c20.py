"""C20 -- future adapters deliver result, error or cancellation exactly once."""
import asyncio
import itertools
import threading

import kiwipy
import plumpy
from plumpy import communications, futures

from pv import judges, plans

ID = 'C20'
TITLE = 'future adapters / cancellable action'
ANCHORS = ['plumpy.communications:convert_to_comm', 'plumpy.futures:create_task', 'plumpy.futures:unwrap_kiwi_future', 'plumpy.communications:plum_to_kiwi_future', 'plumpy.futures:CancellableAction.run', 'plumpy.processes:Process._schedule_rpc']
LEVEL = 'exploration'
TECHNIQUE = ('runtime monitoring: outcome-propagation monitor on the adapter futures (state, result, exception, done-callback count) for generated '
             'nests of futures resolving to futures, all completion orders, completion from the loop thread or another thread; call-count monitor '
             'on CancellableAction')
RULE = ('adapters {unwrap_kiwi_future, plum_to_kiwi_future (+unwrap), create_task, Process._schedule_rpc reply} x nesting depth 1-4 x terminal outcome '
        '{value, falsy value, exception, cancellation} at the innermost level reached x every order of completing the levels (inner before the '
        'outer resolves to it, and after) x completing thread {loop thread, other thread}; CancellableAction x {run, run twice, cancel then run, '
        'raising action, run with args}; exhaustive for depth <=3 same-thread, depth 4 and thread mode sampled; non-trivial when depth >= 2')
RULE += ('; also: create_task with raising factories and coroutines ending by cancellation, plain subscribers converted by convert_to_comm() handing back chains of loop futures (the innermost possibly of another loop), re-entrant CancellableAction runs, a subscriber called from a communicator thread with an injected delay')
ASSUMPTIONS = ['a coroutine given to create_task that ends by cancellation, and a future handed back by a _schedule_rpc callback that ends cancelled, must make '
               'the returned future end cancelled (the mirror rule of the statement: through convert_to_comm the reply is the mirror of that future)',
               'an exception raised by a _schedule_rpc callback may arrive wrapped, as long as it chains to the original',
               'thread-mode cases that hit their watchdog are inconclusive, never violations']
REQUIRED = ['actions_ending_with_a_cancellation', 'idle_foreign_loops', 'adapter/convert_plain', 'foreign_loop_futures', 'adapter/comm_thread', 'injected_delays', 'adapter/unwrap', 'adapter/plum2kiwi', 'adapter/create_task', 'adapter/schedule_rpc', 'outcome/value', 'outcome/exception', 'outcome/cancel',
            'depth/2', 'depth/3', 'inner_first', 'outer_first', 'thread_mode', 'action_cases', 'callbacks_counted', 'mirrors_of_one_future', 'exception_objects_as_values', 'pure_python_futures', 'unprintable_failures']
EXHAUSTIVE = {'quick': False, 'thorough': False}
BOUNDS = {'quick': 'depth<=3 exhaustive orders, depth 4 sampled (200), thread mode 120 cases', 'thorough': 'depth 4 all orders, thread mode 2000 cases'}
# ('ISE:...': the failure is an asyncio.InvalidStateError -- e.g. the scheduled code asked a future for a result it does not have yet --
# an exception like any other as far as the adapters are concerned)
# ('KCE:...': the failure is an *instance* of the communicator library's CancelledError handed over as an exception -- a failure that
# says "something else was cancelled" --, which is not the same as the future having been cancelled)
OUTCOMES = [['value', 42], ['value', None], ['value', 0], ['exc', 'boom'], ['cancel'], ['exc', 'ISE:not-ready'], ['exc', 'KCE:inner-cancelled'],
            ['value', '@EXC']]  # ('@EXC': a value that happens to be an exception object, e.g. what Process.exception() hands back -- a result, not a failure)


class AdapterError(Exception):
    def __eq__(self, other):
        return type(other) is type(self) and other.args == self.args

    def __hash__(self):
        return hash(self.args)


def _val(v):
    return AdapterError('handed back as a value') if v == '@EXC' else v


class UnprintableAdapterError(AdapterError):
    def __str__(self):
        raise IndexError('this exception has no printable form')


def _exc_for(tag):
    if str(tag).startswith('UNP:'):
        return UnprintableAdapterError(tag)
    if str(tag).startswith('KCE:'):
        return kiwipy.CancelledError(tag)
    return asyncio.InvalidStateError(tag) if str(tag).startswith('ISE:') else AdapterError(tag)


def gen_cases(tier, seed):
    rng = plans.rng_for(seed, 'c20')
    cases = []
    for adapter in ('unwrap', 'plum2kiwi'):
        for depth in (1, 2, 3, 4):
            orders = list(itertools.permutations(range(depth)))
            if depth == 4 and tier == 'quick':
                orders = rng.sample(orders, 8)
            for order in orders:
                for oc in OUTCOMES:
                    cases.append({'adapter': adapter, 'depth': depth, 'order': list(order), 'outcome': oc, 'thread': False})
    # one loop future mirrored for two senders; one of them gives up (cancels its mirror) before / after the loop future ends: the other
    # still gets the outcome
    for oc in OUTCOMES:
        for when in ('before', 'after'):
            for which in (0, 1):
                cases.append({'adapter': 'plum2kiwi-twice', 'depth': 1, 'order': [0], 'outcome': oc, 'thread': False, 'gives_up': which, 'when': when})
    # the futures are of asyncio's pure-Python future class -- what every loop hands out once plumpy.set_event_loop_policy() (re-entrant
    # loops) is in force: a future is what asyncio.isfuture() says it is, whatever class implements it
    for adapter in ('plum2kiwi', 'convert_plain', 'schedule_rpc'):
        for depth in (1, 2, 3):
            for order in itertools.permutations(range(depth)):
                for oc in OUTCOMES:
                    cases.append({'adapter': adapter, 'depth': depth, 'order': list(order), 'outcome': oc, 'thread': False, 'pyfutures': True})
    nthread = 120 if tier == 'quick' else 2000
    for _ in range(nthread):
        depth = rng.randint(1, 4)
        order = list(range(depth))
        rng.shuffle(order)
        cases.append({'adapter': rng.choice(['unwrap', 'plum2kiwi']), 'depth': depth, 'order': order, 'outcome': rng.choice(OUTCOMES), 'thread': True})
    for oc in OUTCOMES:
        for yields in (0, 1, 3):
            cases.append({'adapter': 'create_task', 'depth': 1, 'order': [0], 'outcome': oc, 'thread': False, 'yields': yields})
            cases.append({'adapter': 'create_task', 'depth': 1, 'order': [0], 'outcome': oc, 'thread': True, 'yields': yields})
    for thread in (False, True):
        cases.append({'adapter': 'create_task', 'depth': 1, 'order': [0], 'outcome': ['exc', 'creating-call-failed'], 'thread': thread, 'yields': 0, 'factory': 'raises'})
    # the task that runs the scheduled coroutine is cancelled from outside (whoever shuts the loop down cancels what is pending): before
    # its first step, after it, later
    for k in (1, 2, 3):
        cases.append({'adapter': 'create_task', 'depth': 1, 'order': [0], 'outcome': ['cancel'], 'thread': False, 'yields': 8, 'cancel_task_after': k})
    for oc in OUTCOMES:
        cases.append({'adapter': 'create_task', 'depth': 1, 'order': [0], 'outcome': oc, 'thread': False, 'yields': 1, 'default_loop': True})
    # a plain (not async) subscriber converted by convert_to_comm() that hands back a loop future (possibly resolving to further
    # ones) for work it started; 'foreign': the innermost future belongs to another event loop than the one the subscriber is called on
    for depth in (1, 2, 3):
        for oc in OUTCOMES:
            for order in list(itertools.permutations(range(depth))):
                for foreign in (False, True):
                    cases.append({'adapter': 'convert_plain', 'depth': depth, 'order': list(order), 'outcome': oc, 'thread': False, 'foreign': foreign})
                if depth >= 2:
                    # ... a loop that runs in a thread of its own and is idle (blocked waiting for events) all the while
                    cases.append({'adapter': 'convert_plain', 'depth': depth, 'order': list(order), 'outcome': oc, 'thread': False, 'foreign': 'idle-thread'})
    for depth in (0, 1, 2, 3):
        for oc in (OUTCOMES if depth else OUTCOMES[:4]):
            orders = list(itertools.permutations(range(depth))) or [()]
            for order in orders:
                cases.append({'adapter': 'schedule_rpc', 'depth': depth, 'order': list(order), 'outcome': oc, 'thread': False})
                cases.append({'adapter': 'schedule_rpc', 'depth': depth, 'order': list(order), 'outcome': oc, 'thread': True})
    # the control call itself ends with asyncio's CancelledError (it asked a cancelled future for its result): the reply is a cancellation
    for thread in (False, True):
        cases.append({'adapter': 'schedule_rpc', 'depth': 0, 'order': [], 'outcome': ['cancel'], 'thread': thread})
    # the control call itself fails with an error that has no printable form: the reply still carries that failure
    for thread in (False, True):
        cases.append({'adapter': 'schedule_rpc', 'depth': 0, 'order': [], 'outcome': ['exc', 'UNP:callback-fails'], 'thread': thread})
    for depth in (1, 2):
        cases.append({'adapter': 'schedule_rpc', 'depth': depth, 'order': list(range(depth)), 'outcome': ['exc', 'UNP:awaited-fails'], 'thread': False})
        cases.append({'adapter': 'convert_plain', 'depth': depth, 'order': list(range(depth)), 'outcome': ['exc', 'UNP:awaited-fails'], 'thread': False, 'foreign': False})
    # a subscriber converted by convert_to_comm() is called from a communicator thread while the loop is idle; an injected
    # delay (trace hook in the calling thread) lets the loop finish the scheduled coroutine before the mirror is set up
    for oc in OUTCOMES[:4]:
        for delay_at in ('plum_to_kiwi_future', 'on_done', None):
            cases.append({'adapter': 'comm_thread', 'depth': 1, 'order': [0], 'outcome': oc, 'thread': True, 'delay_at': delay_at})
        cases.append({'adapter': 'comm_thread', 'via': 'schedule_rpc', 'depth': 1, 'order': [0], 'outcome': oc, 'thread': True, 'delay_at': None})
    for scen in ('run', 'run-twice', 'cancel-run', 'raise', 'raise-run', 'args', 'cancel-twice-run', 'cancel-inside-run', 'cancel-inside-raise', 'run-inside-run', 'run-inside-raise', 'cancelled-inside-then-cancel', 'run-inside-run-twice', 'run-inside-run-cancel'):
        cases.append({'adapter': 'action', 'scenario': scen, 'depth': 1, 'order': [], 'outcome': ['value', 1], 'thread': False})
    return cases


def _describe(fut):
    """Outcome of a kiwipy (concurrent) or asyncio future."""
    if not fut.done():
        return ['pending']
    if fut.cancelled():
        return ['cancelled']
    exc = fut.exception()
    if exc is not None:
        return ['exception', exc]
    return ['result', fut.result()]


def _expected(oc):
    if oc[0] == 'value':
        return ['result', _val(oc[1])]
    if oc[0] == 'exc':
        return ['exception', _exc_for(oc[1])]
    return ['cancelled']


def _complete(fut, what, nxt):
    """Complete level future: what = 'link' (resolve to next level) or an outcome."""
    if what == 'link':
        fut.set_result(nxt)
    elif what[0] == 'value':
        fut.set_result(_val(what[1]))
    elif what[0] == 'exc':
        fut.set_exception(_exc_for(what[1]))
    else:
        fut.cancel()


def run_comm_thread(case):
    import sys
    import time
    V = judges.V
    oc = case['outcome']
    obs = {'adapter': {'comm_thread': 1}, 'outcome': {('exception' if oc[0] == 'exc' else 'value'): 1}, 'depth': {'1': 1}, 'inner_first': 0,
           'outer_first': 0, 'thread_mode': 1, 'action_cases': 0, 'callbacks_counted': 0, 'injected_delays': 0}
    loop = asyncio.new_event_loop()
    asyncio.set_event_loop(loop)
    out = {}

    async def handler(_comm, msg):
        if oc[0] == 'exc':
            raise _exc_for(oc[1])
        return _val(oc[1])

    conv = communications.convert_to_comm(handler, loop)
    delay_at = case.get('delay_at')
    via = case.get('via', 'convert_to_comm')
    if via == 'schedule_rpc':
        # the other adapter between a communicator thread and the loop: Process._schedule_rpc (what message_receive uses)
        proc = plumpy.Process(loop=loop)

        def callback():
            if oc[0] == 'exc':
                raise _exc_for(oc[1])
            return _val(oc[1])

        conv = lambda _comm, _msg: proc._schedule_rpc(callback)  # noqa: E731
    # the sender waits until the loop thread is really blocked in its selector
    blocked = threading.Event()
    orig_select = loop._selector.select

    def select(timeout=None):
        if timeout is None:
            blocked.set()
        return orig_select(timeout)

    loop._selector.select = select

    def tracer(frame, event, arg):
        if event == 'call' and frame.f_code.co_name == delay_at:
            obs['injected_delays'] += 1
            time.sleep(0.05)  # the loop thread gets ahead of this (communicator) thread here
        return None

    def sender():
        out['loop_seen_idle'] = blocked.wait(20)
        time.sleep(0.01)
        if delay_at:
            sys.settrace(tracer)
        try:
            fut = conv(None, 'msg')
        finally:
            sys.settrace(None)
        ev = threading.Event()
        fut.add_done_callback(lambda f: ev.set())
        out['in_time'] = ev.wait(20)  # generous watchdog: the operation itself takes about a millisecond
        out['desc'] = _describe(fut)
        loop.call_soon_threadsafe(loop.stop)

    th = threading.Thread(target=sender)
    th.start()
    try:
        loop.run_forever()
        th.join(25)
    finally:
        loop.close()
        asyncio.set_event_loop(None)
    viol = []
    exp = _expected(oc)
    if not out.get('loop_seen_idle'):
        return {'viol': [], 'obs': obs, 'inconclusive': 'loop-never-idle', 'key': case, 'nontrivial': False}
    if not out.get('in_time'):
        viol.append(V('adapter-pending', 'adapter-pending:comm_thread:%s:%s' % (via, delay_at or 'nodelay'),
                      '%s was called from another thread while the loop was idle: its reply future was still pending '
                      'after 20 s (delay injected at %s)' % (via, delay_at)))
    elif not _same(out['desc'], exp, 'schedule_rpc'):
        viol.append(V('adapter-outcome', 'adapter-outcome:comm_thread:%s' % oc[0], 'reply future ended %r, the handler produced %r' % (out['desc'], exp)))
    return {'viol': viol, 'obs': obs, 'key': case, 'nontrivial': True,
            'sample': {'adapter': '%s from a communicator thread, loop idle' % via, 'delay_at': delay_at, 'outcome': oc, 'reply': [out.get('desc', ['?'])[0]]}}


def run_case(case):
    if case['adapter'] == 'action':
        return run_action(case)
    if case['adapter'] == 'comm_thread':
        return run_comm_thread(case)
    V = judges.V
    adapter, depth, order, oc, thread = case['adapter'], case['depth'], case['order'], case['outcome'], case['thread']
    obs = {'adapter': {adapter: 1}, 'outcome': {('cancel' if oc[0] == 'cancel' else ('exception' if oc[0] == 'exc' else 'value')): 1},
           'depth': {str(depth): 1}, 'inner_first': 0, 'outer_first': 0, 'thread_mode': int(thread), 'action_cases': 0, 'callbacks_counted': 0}
    obs['exception_objects_as_values'] = int(oc == ['value', '@EXC'])
    obs['unprintable_failures'] = int(oc[0] == 'exc' and str(oc[1]).startswith('UNP:'))
    if depth >= 2:
        if order.index(depth - 1) < order.index(0):
            obs['inner_first'] = 1
        else:
            obs['outer_first'] = 1
    loop = asyncio.new_event_loop()
    asyncio.set_event_loop(loop)
    if case.get('pyfutures'):
        loop.create_future = lambda: asyncio.futures._PyFuture(loop=loop)
        obs['pure_python_futures'] = 1
    calls = []
    incon = None
    forced_got = None
    viol = []
    try:
        if adapter == 'unwrap':
            levels = [kiwipy.Future() for _ in range(depth)]
            out = futures.unwrap_kiwi_future(levels[0])
            out.add_done_callback(lambda f: calls.append(1))
            steps = [lambda i=i: _complete(levels[i], 'link' if i < depth - 1 else oc, levels[i + 1] if i < depth - 1 else None) for i in order]
            _drive(loop, steps, thread, lambda: out.done(), on_loop=False)
        elif adapter == 'plum2kiwi':
            levels = [loop.create_future() for _ in range(depth)]
            mirror = communications.plum_to_kiwi_future(levels[0])
            out = futures.unwrap_kiwi_future(mirror)
            out.add_done_callback(lambda f: calls.append(1))
            steps = [lambda i=i: _complete(levels[i], 'link' if i < depth - 1 else oc, levels[i + 1] if i < depth - 1 else None) for i in order]
            _drive(loop, steps, thread, lambda: out.done(), on_loop=True)
        elif adapter == 'plum2kiwi-twice':
            level = loop.create_future()
            mirrors = [communications.plum_to_kiwi_future(level), communications.plum_to_kiwi_future(level)]
            out = mirrors[1 - case['gives_up']]
            out.add_done_callback(lambda f: calls.append(1))
            if case['when'] == 'before':
                mirrors[case['gives_up']].cancel()
            _drive(loop, [lambda: _complete(level, oc, None)], False, lambda: out.done(), on_loop=True)
            if case['when'] == 'after':
                mirrors[case['gives_up']].cancel()
            obs['mirrors_of_one_future'] = 1
        elif adapter == 'create_task':
            async def coro():
                for _ in range(case.get('yields', 0)):
                    await asyncio.sleep(0)
                if oc[0] == 'exc':
                    raise _exc_for(oc[1])
                if oc[0] == 'cancel':
                    # the coroutine ends by cancellation (it awaits something that was cancelled)
                    inner = loop.create_future()
                    inner.cancel()
                    await inner
                return _val(oc[1])

            factory = coro
            if case.get('factory') == 'raises':
                # "a function which creates the coroutine": the creating call itself fails (no coroutine ever exists)
                def factory():
                    raise _exc_for(oc[1])

            holder = {}

            def start():
                # (the loop may be left out: the current one is meant)
                holder['out'] = futures.create_task(factory) if case.get('default_loop') else futures.create_task(factory, loop)
                holder['out'].add_done_callback(lambda f: calls.append(1))

            if thread:
                # scheduled from another thread, as a communicator does
                t = threading.Thread(target=start)
                t.start()
                t.join()
            else:
                start()
            out = holder['out']
            if case.get('cancel_task_after'):
                for _ in range(case['cancel_task_after']):
                    loop.call_soon(loop.stop)
                    loop.run_forever()
                pending = [t for t in asyncio.all_tasks(loop) if not t.done()]
                for t in pending:
                    t.cancel()
                obs['tasks_cancelled_from_outside'] = len(pending)
            _drive(loop, [], False, lambda: out.done(), on_loop=True)
        elif adapter == 'convert_plain' and case.get('foreign') == 'idle-thread':
            import time
            other = asyncio.new_event_loop()
            blocked = threading.Event()
            orig_select = other._selector.select

            def select(timeout=None):
                if timeout is None:
                    blocked.set()  # (the loop thread is about to block without a timeout: it is idle)
                return orig_select(timeout)

            other._selector.select = select
            th = threading.Thread(target=other.run_forever, daemon=True)
            th.start()
            levels = [loop.create_future() for _ in range(depth - 1)] + [other.create_future()]

            def subscriber(_comm, _msg):
                return levels[0]

            conv = communications.convert_to_comm(subscriber, loop)
            out = futures.unwrap_kiwi_future(conv(None, 'msg'))
            out.add_done_callback(lambda f: calls.append(1))

            def complete(i):
                if i < depth - 1:
                    _complete(levels[i], 'link', levels[i + 1])
                    return
                # the innermost future is completed where it lives, by its own loop; afterwards that loop is idle again
                blocked.clear()
                other.call_soon_threadsafe(_complete, levels[i], oc, None)
                t0 = time.time()
                while not levels[i].done() and time.time() - t0 < 10:
                    time.sleep(0.001)
                blocked.wait(10)

            try:
                blocked.wait(10)
                _drive(loop, [], False, lambda: out.done(), on_loop=True)
                _drive(loop, [lambda i=i: complete(i) for i in order], False, lambda: out.done(), on_loop=True)
                # generous wall-clock watchdog (the hand-over takes about a millisecond when the idle loop is woken up)
                t0 = time.time()
                while not out.done() and time.time() - t0 < 10:
                    _drive(loop, [], False, lambda: out.done(), on_loop=True)
                    time.sleep(0.002)
                _drive(loop, [], False, lambda: out.done(), on_loop=True)
                incon = None if (blocked.is_set() or out.done()) else 'foreign loop never idle'
                if not out.done() and not (blocked.is_set() and len(other._ready) > 0):
                    # (pending, but not because something sits in the queue of a loop nobody woke up: the watchdog on a loaded machine)
                    incon = incon or 'watchdog'
                forced_got = _describe(out)  # (as it is now: stopping the idle loop below wakes it up, which would deliver what is stuck)
            finally:
                other.call_soon_threadsafe(other.stop)
                th.join(10)
                other.close()
            obs['foreign_loop_futures'] = 1
            obs['idle_foreign_loops'] = 1
        elif adapter == 'convert_plain':
            other = asyncio.new_event_loop() if case.get('foreign') else None
            levels = [loop.create_future() for _ in range(depth - 1)] + [(other or loop).create_future()]

            def subscriber(_comm, _msg):
                return levels[0]

            conv = communications.convert_to_comm(subscriber, loop)
            out = futures.unwrap_kiwi_future(conv(None, 'msg'))
            out.add_done_callback(lambda f: calls.append(1))

            def flush_other():
                if other is not None:
                    other.call_soon(other.stop)
                    other.run_forever()

            steps = [lambda i=i: (_complete(levels[i], 'link' if i < depth - 1 else oc, levels[i + 1] if i < depth - 1 else None), flush_other()) for i in order]
            try:
                if case['order'][0] % 2 == 0 or depth == 1:
                    # (the subscriber has been called and its future is being waited for before anything completes; otherwise the
                    # first completion may come before the call)
                    _drive(loop, [], False, lambda: out.done(), on_loop=True)
                _drive(loop, steps, False, lambda: out.done(), on_loop=True)
                for _ in range(3):
                    flush_other()
                    _drive(loop, [], False, lambda: out.done(), on_loop=True)
            finally:
                if other is not None:
                    other.close()
            obs['foreign_loop_futures'] = int(bool(case.get('foreign')))
        else:  # schedule_rpc
            proc = plumpy.Process(loop=loop)
            levels = [loop.create_future() for _ in range(depth)]

            def callback():
                if depth == 0:
                    if oc[0] == 'cancel':
                        gone = loop.create_future()
                        gone.cancel()
                        return gone.result()  # raises asyncio.CancelledError
                    if oc[0] == 'exc':
                        raise _exc_for(oc[1])
                    return _val(oc[1])
                return levels[0]

            holder = {}

            def start():
                holder['out'] = proc._schedule_rpc(callback)
                holder['out'].add_done_callback(lambda f: calls.append(1))

            if thread:
                t = threading.Thread(target=start)
                t.start()
                t.join()
            else:
                start()
            out = holder['out']
            steps = [lambda i=i: _complete(levels[i], 'link' if i < depth - 1 else oc, levels[i + 1] if i < depth - 1 else None) for i in order]
            _drive(loop, steps, False, lambda: out.done(), on_loop=True)
        got = forced_got if forced_got is not None else _describe(out)
        exp = _expected(oc)
        where = '%s:depth%d:%s' % (adapter, depth, 'thread' if thread else 'loop')
        pattern = 'inner-first' if obs['inner_first'] else ('outer-first' if obs['outer_first'] else 'single')
        if got == ['pending']:
            if (thread or case.get('foreign') == 'idle-thread') and incon:
                pass
            else:
                viol.append(V('adapter-pending', 'adapter-pending:%s:%s:%s' % (adapter, oc[0], pattern),
                              '%s: adapter future still pending after every level completed (order %s, outcome %s)' % (where, order, oc)))
        elif not _same(got, exp, adapter if depth == 0 else adapter + ':awaited'):  # (only what the callback itself raises may arrive wrapped)
            viol.append(V('adapter-outcome', 'adapter-outcome:%s:%s:%s' % (adapter, oc[0], pattern),
                          '%s: adapter ended with %r, innermost outcome was %r (order %s)' % (where, got, exp, order)))
        obs['callbacks_counted'] = 1
        if got != ['pending'] and len(calls) != 1:
            # done callbacks of kiwi futures run synchronously; asyncio ones need one more loop iteration (done in _drive)
            viol.append(V('callback-count', 'callback-count:%s' % adapter, '%s: done-callback fired %d times' % (where, len(calls))))
    except (NameError, TypeError, AttributeError, AssertionError, RuntimeError) as exc:
        # the adapter itself broke down (it raised instead of handing a future back / carrying the outcome over)
        import traceback
        frames = traceback.extract_tb(exc.__traceback__)
        if not any('/plumpy/' in f.filename for f in frames):
            raise  # a fault of the harness, not of the adapter
        got = ['raised', type(exc).__name__]
        viol.append(V('adapter-raised', 'adapter-raised:%s:%s' % (adapter, type(exc).__name__), '%s:depth%d: the adapter raised %r (outcome %s, order %s)' % (
            adapter, depth, exc, oc, order)))
    finally:
        try:
            loop.run_until_complete(asyncio.sleep(0))
        except BaseException:  # noqa: BLE001
            pass
        loop.close()
        asyncio.set_event_loop(None)
    res = {'viol': viol, 'obs': obs, 'inconclusive': incon, 'key': case, 'nontrivial': depth >= 2}
    res['sample'] = {'adapter': adapter, 'depth': depth, 'completion_order': order, 'innermost_outcome': oc, 'thread': thread,
                     'adapter_ended': [got[0], repr(got[1]) if len(got) > 1 else None]}
    return res


def _same(got, exp, adapter):
    if got[0] != exp[0]:
        return False
    if got[0] == 'exception':
        e = got[1]
        for _ in range(6):
            if e == exp[1] or (type(e) is type(exp[1]) and not isinstance(e, AdapterError) and e.args == exp[1].args):
                return True
            if adapter != 'schedule_rpc' or e is None:
                break
            e = e.__cause__  # (wrapped deliberately, ``raise ... from exc``: an error that merely happened while the failure was being handled does not carry it)
        return False
    if got[0] == 'result':
        return got[1] == exp[1] and type(got[1]) is type(exp[1])
    return True


def _drive(loop, steps, thread, done, on_loop):
    """Apply the completion steps (same thread between loop iterations, or from another thread) and run the loop until done."""
    def spin(n=3):
        for _ in range(n):
            loop.call_soon(loop.stop)
            loop.run_forever()

    if not thread:
        spin(1)
        for step in steps:
            step()
            spin(3)
        spin(6)
        return
    finished = threading.Event()

    def worker():
        for step in steps:
            if on_loop:
                loop.call_soon_threadsafe(step)
            else:
                step()
        finished.set()

    t = threading.Thread(target=worker)
    t.start()
    # run the loop while the other thread completes the futures
    for _ in range(2000):
        loop.call_soon(loop.stop)
        loop.run_forever()
        if finished.is_set():
            break
        threading.Event().wait(0.0002)
    t.join(5)
    # everything has been handed to the loop by now: from here on the run is deterministic again
    for _ in range(40):
        spin(3)
        if done():
            break
    spin(3)


def run_action(case):
    V = judges.V
    scen = case['scenario']
    loop = asyncio.new_event_loop()
    asyncio.set_event_loop(loop)
    obs = {'adapter': {}, 'outcome': {}, 'depth': {}, 'inner_first': 0, 'outer_first': 0, 'thread_mode': 0, 'action_cases': 1, 'callbacks_counted': 0}
    calls = []
    viol = []

    holder = {}

    def fn(*args, **kwargs):
        calls.append((args, kwargs))
        if scen.startswith('cancel-inside'):
            holder['cancel_returned'] = holder['action'].cancel()  # re-entrant cancel from code the action itself triggered
        if scen.startswith('run-inside') and len(calls) == 1:
            # re-entrant run() from code the action itself triggered: must be refused like any second run
            try:
                holder['action'].run()
                holder['inner'] = 'ran'
            except Exception as exc:  # noqa: BLE001
                holder['inner'] = 'refused:%s' % type(exc).__name__
            if scen == 'run-inside-run-twice':
                # ... and so is the next one (a refusal changes nothing about the run that is in flight)
                try:
                    holder['action'].run()
                    holder['inner'] = 'second-ran'
                except Exception as exc:  # noqa: BLE001
                    pass
            if scen == 'run-inside-run-cancel':
                # ... nor can the action be cancelled afterwards, from inside its own function: it is still running
                holder['cancel_returned'] = holder['action'].cancel()
        if scen == 'cancelled-inside-then-cancel':
            gone = loop.create_future()
            gone.cancel()
            return gone.result()  # raises asyncio.CancelledError
        if scen.startswith('raise') or scen in ('cancel-inside-raise', 'run-inside-raise'):
            raise AdapterError('action-failed')
        return ['ran', list(args), kwargs]

    try:
        action = futures.CancellableAction(fn, cookie='c')
        holder['action'] = action
        if scen.startswith(('cancel-inside', 'run-inside')):
            # the function ran, so its outcome must be reported through the action and run() must not blow up
            try:
                action.run()
            except Exception as exc:  # noqa: BLE001
                viol.append(V('action-run-raised', 'action-run-raised:' + scen, 'run() raised %r when the action was %s from inside its own function' % (
                    exc, 'cancelled' if scen.startswith('cancel') else 'run again')))
            if scen == 'run-inside-run-cancel' and holder.get('cancel_returned'):
                viol.append(V('action-cancelled-while-running', 'action-cancelled-while-running:' + scen, 'cancel() from inside the running function, after a refused run(), returned True'))
            if scen.startswith('run-inside') and not str(holder.get('inner')).startswith('refused'):
                viol.append(V('action-reran', 'action-reran:' + scen, 'run() called from inside the action\'s own function was not refused (%s)' % holder.get('inner')))
            got = _describe(action)
            exp = ['exception', AdapterError('action-failed')] if scen.endswith('raise') else ['result', ['ran', [], {}]]
            if got != exp:
                viol.append(V('action-outcome', 'action-outcome:' + scen, 'the function ran but the action reports %r, expected %r' % (got, exp)))
            if len(calls) != 1:
                viol.append(V('action-call-count', 'action-call-count:' + scen, 'function called %d times' % len(calls)))
        elif scen in ('run', 'run-twice', 'raise', 'raise-run'):
            action.run()
            if len(calls) != 1:
                viol.append(V('action-call-count', 'action-call-count:' + scen, 'function called %d times by one run()' % len(calls)))
            got = _describe(action)
            exp = ['exception', AdapterError('action-failed')] if scen.startswith('raise') else ['result', ['ran', [], {}]]
            if got != exp:
                viol.append(V('action-outcome', 'action-outcome:' + scen, 'action reports %r, expected %r' % (got, exp)))
            if scen in ('run-twice', 'raise-run'):
                try:
                    action.run()
                    viol.append(V('action-reran', 'action-reran:' + scen, 'second run() did not raise'))
                except Exception:  # noqa: BLE001
                    pass
                if len(calls) != 1:
                    viol.append(V('action-call-count', 'action-call-count:' + scen, 'function called %d times' % len(calls)))
        elif scen == 'cancelled-inside-then-cancel':
            # the function ends with a cancellation (it asked a cancelled future for its result): whether or not that is reported through
            # the action, the action is not left running -- whoever holds it can still withdraw it, so it ends one way or the other
            try:
                action.run()
            except BaseException:  # noqa: BLE001
                pass
            obs['actions_ending_with_a_cancellation'] = 1
            if not action.done() and not action.cancel():
                viol.append(V('action-stuck', 'action-stuck:' + scen, 'after its function ended with a cancellation the action is pending and refuses to be cancelled: it can never end'))
        elif scen in ('cancel-run', 'cancel-twice-run'):
            action.cancel()
            if scen == 'cancel-twice-run':
                action.cancel()
            try:
                action.run()
                viol.append(V('action-ran-after-cancel', 'action-ran-after-cancel', 'run() after cancel() did not raise'))
            except Exception:  # noqa: BLE001
                pass
            if calls:
                viol.append(V('action-called-after-cancel', 'action-called-after-cancel', 'the function was called although the action had been cancelled'))
            if not action.cancelled():
                viol.append(V('action-outcome', 'action-outcome:' + scen, 'cancelled action reports %r' % (_describe(action),)))
        elif scen == 'args':
            action.run(1, 'b', k=2)
            if _describe(action) != ['result', ['ran', [1, 'b'], {'k': 2}]] or len(calls) != 1:
                viol.append(V('action-outcome', 'action-outcome:args', 'action reports %r after run(1, "b", k=2)' % (_describe(action),)))
        if action.cookie != 'c':
            viol.append(V('action-cookie', 'action-cookie', 'cookie %r' % (action.cookie,)))
    finally:
        loop.close()
        asyncio.set_event_loop(None)
    return {'viol': viol, 'obs': obs, 'key': case, 'nontrivial': True, 'sample': {'adapter': 'CancellableAction', 'scenario': scen, 'calls': len(calls)}}
