"""C10 -- ToContext is a barrier: the next step sees every awaited result."""
import itertools

from pv import judges, nested, plans, wcprog

ID = 'C10'
TITLE = 'ToContext barrier'
ANCHORS = ['plumpy.workchains:WorkChain.to_context', 'plumpy.workchains:WorkChain._do_step', 'plumpy.workchains:Waiting.enter', 'plumpy.workchains:Waiting.exit', 'plumpy.workchains:Waiting._awaitable_done', 'plumpy.processes:Process.launch']
LEVEL = 'exploration'
TECHNIQUE = ('runtime monitoring: barrier assertion evaluated at the entry of the step after each ToContext/to_context registration, under '
             'enumerated completion orders, placements and outcome mixes of the awaited futures / child processes')
RULE = ('workchains whose step registers n<=3 (thorough 4) awaitables (plain futures or launched children; returned ToContext or to_context call; '
        'optionally a later step re-assigning a key) x every completion order x placements over loop-callback slots (incl. before registration) x '
        'outcome mixes value/exception/cancel (futures), finish/fail/kill (children); distinct by (program, plan); non-trivial when the barrier '
        'assertion was evaluated or a failure was delivered')
RULE += ('; also: completions while paused, registering steps inside if/elif/else/while bodies, one item under two keys, mapping results on re-assigned keys, a registering step that runs another process to completion (nested execute, re-entrant loop policy)')
ASSUMPTIONS = ['pause/play: the workchain paused while the items complete, then played (finer interleavings are C06)', 'children are processes that wait for the harness (so completion is controlled)']
REQUIRED = ['barrier_checks', 'ctx_checks', 'failures/exc', 'failures/killed', 'failures/cancel', 'kinds/fut', 'kinds/child', 'kinds/oldchild', 'how/ret', 'how/call', 'how/wait', 'how/wait-fut', 'terminated_before_registration', 'failure_while_paused', 'nested_runs', 'nested_barrier_checks', 'nested_registered_before_inner_run', 'unprintable_failures', 'uncopyable_results', 'none_results', 'exception_objects_as_results', 'reserved_name_keys', 'failure_callback_races', 'failures_with_a_withdrawn_kill', 'equal_children_runs', 'falsy_results']
BOUNDS = {'quick': 'n<=3 awaitables, all completion orders, placements sampled on a grid', 'thorough': 'n<=4, all placements'}


def _programs(tier):
    progs = {}
    kinds = ['fut', 'child']
    hows = ['ret', 'call']
    nmax = 3 if tier == 'quick' else 4
    for n in range(1, nmax + 1):
        for combo in itertools.product(itertools.product(kinds, hows), repeat=n):
            if n >= 3 and tier == 'quick' and len(set(combo)) < 2:
                continue
            if n == 4 and len(set(combo)) < 3:
                continue
            reg = [['k%d' % i, i, kind, how] for i, (kind, how) in enumerate(combo)]
            name = 'n%d_' % n + '_'.join('%s%s' % (k[0], h[0]) for k, h in combo)
            progs[name] = {'steps': [{'reg': reg, 'ret': None}, {'reg': [], 'ret': None}, {'reg': [], 'ret': 'end'}]}
    # children of a class with value equality (any two compare and hash equal): two children, two outcomes
    for name in ('n2_cr_cr', 'n2_cc_cc', 'n2_cr_cc', 'n3_cr_cc_fr'):
        if name in progs:
            progs['eq_' + name] = dict(progs[name], equal_children=True)
    # a later step re-assigns a key; and two waits in a row
    progs['reassign'] = {'steps': [{'reg': [['k', 0, 'fut', 'ret'], ['j', 1, 'fut', 'call']], 'ret': None},
                                   {'reg': [['k', 2, 'fut', 'call']], 'ret': None}, {'reg': [], 'ret': None}]}
    # ... and a key that got one item's result is assigned an *earlier* item again by a later step (the item is done by then)
    progs['reassign_same'] = {'steps': [{'reg': [['k', 0, 'fut', 'ret'], ['j', 1, 'fut', 'call']], 'ret': None},
                                        {'reg': [['j', 0, 'fut', 'call']], 'ret': None}, {'reg': [['k', 1, 'fut', 'ret']], 'ret': None}, {'reg': [], 'ret': None}]}
    progs['reassign_child'] = {'steps': [{'reg': [['k', 0, 'child', 'ret']], 'ret': None},
                                         {'reg': [['k', 1, 'fut', 'ret'], ['m', 2, 'child', 'call']], 'ret': None}, {'reg': [], 'ret': 3}]}
    # a child launched by an earlier step and handed to the context only later (it may already have finished / failed / been killed)
    for how in ('ret', 'call'):
        progs['oldchild_' + how] = {'steps': [{'pre': [1], 'reg': [['a', 0, 'fut', 'ret']], 'ret': None},
                                              {'reg': [['b', 1, 'oldchild', how]], 'ret': None}, {'reg': [], 'ret': 'end'}]}
    progs['oldchild_two'] = {'steps': [{'pre': [1, 2], 'reg': [['a', 0, 'fut', 'call']], 'ret': None},
                                       {'reg': [['b', 1, 'oldchild', 'ret'], ['c', 2, 'oldchild', 'call']], 'ret': None}, {'reg': [], 'ret': None}]}
    # the registering step is the last instruction of an if_ / elif_ / else_ / while_ body and the outline goes on after it
    # keys that are also names of the context object's own methods (a key is a key: the entry shadows the method, as in any namespace)
    progs['reserved_names'] = {'steps': [{'reg': [['get', 0, 'fut', 'ret'], ['setdefault', 1, 'child', 'call']], 'ret': None}, {'reg': [['get', 2, 'fut', 'call']], 'ret': None},
                                         {'reg': [], 'ret': 'end'}]}
    # the awaitables of a wait command the step builds itself: a child in there as the process and as its future at once
    progs['wait_both'] = {'steps': [{'pre': [1], 'reg': [['p', 1, 'oldchild', 'wait'], ['f', 1, 'oldchild', 'wait-fut'], ['g', 1, 'oldchild', 'wait-fut'], ['a', 0, 'fut', 'wait']], 'ret': None},
                                    {'reg': [], 'ret': None}, {'reg': [], 'ret': 'end'}]}
    progs['wait_both2'] = {'steps': [{'pre': [0], 'reg': [['f', 0, 'oldchild', 'wait-fut'], ['p', 0, 'oldchild', 'wait']], 'ret': None}, {'reg': [], 'ret': None}]}
    for how in ('if', 'elif', 'else', 'while'):
        for reg_how in ('ret', 'call'):
            progs['in_%s_%s' % (how, reg_how)] = {'steps': [{'reg': [['k0', 0, 'fut', reg_how], ['k1', 1, 'child', 'call']], 'ret': None}, {'reg': [], 'ret': None},
                                                         {'reg': [['k2', 2, 'fut', reg_how]], 'ret': None}, {'reg': [], 'ret': 'end'}],
                                               'wrap': [how, None, how, None]}
    # one awaited item handed to the context under two keys (by the same step, both ways of registering)
    progs['twokeys_ret'] = {'steps': [{'reg': [['k', 0, 'fut', 'ret'], ['again', 0, 'fut', 'ret'], ['c', 1, 'child', 'ret'], ['c2', 1, 'oldchild', 'ret']], 'ret': None},
                                      {'reg': [], 'ret': None}]}
    progs['twokeys_call'] = {'steps': [{'reg': [['k', 0, 'fut', 'call'], ['again', 0, 'fut', 'call'], ['c', 1, 'child', 'call'], ['c2', 1, 'oldchild', 'ret']], 'ret': None},
                                       {'reg': [], 'ret': None}]}
    # everything is registered with to_context(), and the step returns an (empty) context assignment as well
    progs['call_and_empty_ret'] = {'steps': [{'reg': [['k', 0, 'fut', 'call'], ['c', 1, 'child', 'call']], 'ret': None, 'empty_tc': True}, {'reg': [], 'ret': None},
                                             {'reg': [['k2', 2, 'fut', 'call']], 'ret': None, 'empty_tc': True}, {'reg': [], 'ret': 'end'}]}
    # the returned assignment is an instance of a subclass of ToContext (an application's own, the standard library's OrderedDict)
    for tc in ('subclass', 'ordered'):
        progs['tc_' + tc] = {'steps': [{'reg': [['k0', 0, 'fut', 'ret'], ['k1', 1, 'child', 'ret']], 'ret': None}, {'reg': [], 'ret': None},
                                       {'reg': [['k2', 2, 'fut', 'ret']], 'ret': None}, {'reg': [], 'ret': 'end'}], 'tc_class': tc}
    progs['samekey'] = {'steps': [{'reg': [['k', 0, 'fut', 'call'], ['k', 1, 'fut', 'ret']], 'ret': None}, {'reg': [], 'ret': None}]}
    return progs


def _outcomes(kind):
    if kind == 'fut':
        return [['value', None], ['exc', None], ['cancel']]
    return ['resume', 'fail', 'kill']


def gen_cases(tier, seed):
    rng = plans.rng_for(seed, 'c10')
    for c in gen_nested():
        yield c
    cap = 150 if tier == 'quick' else 1200
    for name, prog in sorted(_programs(tier).items()):
        cases = []
        paused_cases = []
        items = []
        for st in prog['steps']:
            for _k, idx, kind, _h in st['reg']:
                if idx not in [i for i, _kind in items]:  # (an item handed over under two keys is still one item with one outcome)
                    items.append((idx, 'child' if kind == 'oldchild' else kind))
        ref = wcprog.run_case({'program': prog, 'plan': [], 'drain': True})
        nslots = ref['slots'] + 1
        poscache = {}
        outcome_sets = list(itertools.product(*[range(3) for _ in items]))
        if tier == 'quick' and len(outcome_sets) > 9:
            outcome_sets = rng.sample(outcome_sets, 12)
        elif len(outcome_sets) > 27:
            outcome_sets = rng.sample(outcome_sets, 27)
        for oc in outcome_sets:
            acts = []
            for (idx, kind), o in zip(items, oc):
                if kind == 'fut':
                    spec = _outcomes('fut')[o]
                    # (where a key is assigned again by a later step the results are mappings with different keys, like the outputs
                    # of two different children: the later result replaces the earlier one, it is not merged into it)
                    # (some results are objects that cannot be copied, some errors are falsy or have no printable form)
                    val = ['value', {'r%d' % idx: idx} if name.startswith('reassign') else rng.choice(['@NOCOPY', '@NOCOPY', '@EXCVAL', '@EXCVAL', None, None, 0, '', [], 'v%d' % idx, 'v%d' % idx, 'v%d' % idx, 'v%d' % idx])] if spec[0] == 'value' else (
                        ['exc', rng.choice(['falsy-e%d', 'falsy-e%d', 'unprintable-e%d', 'unprintable-e%d', 'e%d', 'e%d', 'e%d']) % idx] if spec[0] == 'exc' else ['cancel'])
                    acts.append(['complete', idx, val])
                else:
                    acts.append(['child', idx, _outcomes('child')[o]])
            perms = list(itertools.permutations(acts))
            if len(perms) > 6:
                perms = rng.sample(perms, 6 if tier == 'quick' else 12)
            elif tier == 'quick' and len(perms) > 3:
                perms = rng.sample(perms, 3)
            for perm in perms:
                k = len(perm)
                if k not in poscache:
                    poscache[k] = list(itertools.combinations_with_replacement(range(0, nslots + 1), k))
                allpos = poscache[k]
                limit = 6 if tier == 'quick' else 20
                if len(allpos) > limit:
                    allpos = [allpos[rng.randrange(len(allpos))] for _ in range(limit)]
                for pos in allpos:
                    plan = [{'at': p, 'act': list(a)} for p, a in zip(pos, perm)]
                    cases.append({'name': name, 'program': prog, 'plan': plan, 'drain': True, 'listener': False})
                # the workchain is paused (from within the registering step, or while it waits at the barrier) when the
                # awaited items complete, and played afterwards
                for first in ([{'at': 1, 'act': ['pause', 'pp']}], [{'at': 'q', 'act': ['pause', 'pq']}]):
                    plan = first + [{'at': 'q', 'act': list(a)} for a in perm]
                    paused_cases.append({'name': name, 'program': prog, 'plan': plan, 'drain': True, 'listener': False})
                # an item completes and a pause is requested in the same loop iteration (the completion first), the others follow
                # while paused
                for s0 in rng.sample(range(1, nslots + 1), min(3, nslots)):
                    plan = [{'at': s0, 'act': list(perm[0])}, {'at': s0, 'act': ['pause', 'ps']}] + [{'at': 'q', 'act': list(a)} for a in perm[1:]]
                    paused_cases.append({'name': name, 'program': prog, 'plan': plan, 'drain': True, 'listener': False})
        # an awaited item fails and, in the same loop iteration, a callback scheduled on the work chain raises (both orders): whichever
        # failure wins, the chain ends EXCEPTED and stepping it returns normally
        race_cases = []
        for (idx, kind) in items:
            fail_act = ['complete', idx, ['exc', 'e%d' % idx]] if kind == 'fut' else ['child', idx, 'fail']
            for s0 in range(1, nslots + 1):
                for order in (0, 1):
                    pair = [{'at': s0, 'act': fail_act}, {'at': s0, 'act': ['soon_raise', 'cb-fails']}]
                    race_cases.append({'name': name, 'program': prog, 'plan': pair if order == 0 else pair[::-1], 'drain': True, 'listener': False, 'race': True})
        # ... or a kill of the work chain is requested and withdrawn again by its requester, all in that same loop iteration (the kill
        # is only pending then): the failure counts like any other, the chain does not go on
        for (idx, kind) in items[:2]:
            fail_act = ['complete', idx, ['exc', 'e%d' % idx]] if kind == 'fut' else ['child', idx, 'fail']
            for s0 in range(1, nslots + 1, 2):
                rest = [{'at': 'q', 'act': (['complete', i2, ['value', 'v%d' % i2]] if k2 == 'fut' else ['child', i2, 'resume'])} for i2, k2 in items if i2 != idx]
                race_cases.append({'name': name, 'program': prog, 'drain': True, 'listener': False, 'withdrawn_kill': True,
                                   'plan': [{'at': s0, 'act': fail_act}, {'at': s0, 'act': ['kill', 'wk']}, {'at': s0, 'act': ['cancel_ret', 'kill']}] + rest})
        if len(race_cases) > 40:
            race_cases = rng.sample(race_cases, 40)
        paused_cases += race_cases
        if len(cases) > cap:
            cases = rng.sample(cases, cap)
        if len(paused_cases) > cap // 3 + 40:
            paused_cases = rng.sample(paused_cases, cap // 3 + 40)
        cases += paused_cases
        for case in cases:
            yield case


def gen_nested():
    for inner in ('wc', 'wc-noawait', 'proc'):
        for where in ('first', 'mid', 'last'):
            for depth in ((1, 2) if inner == 'wc' else (1,)):
                for outer in itertools.chain(itertools.product(itertools.product(('call', 'ret'), ('soon', 'later')), repeat=1),
                                             itertools.product(itertools.product(('call', 'ret'), ('soon', 'later')), repeat=2)):
                    yield {'kind': 'nested', 'name': 'nested', 'inner': inner, 'where': where, 'depth': depth, 'outer': [list(o) for o in outer]}


def run_nested(case):
    r = nested.run(case)
    V = judges.V
    viol = []
    obs = {'nested_runs': 1, 'nested_barrier_checks': len(r['log']), 'nested_registered_before_inner_run': int(case['where'] != 'first' and any(h == 'call' for h, _w in case['outer'])),
           'barrier_checks': 0, 'ctx_checks': 0, 'failures': {}, 'kinds': {}, 'how': {}, 'early_completions': 0, 'final': {}, 'terminated_before_registration': 0, 'failure_while_paused': 0}
    shape = '%s/%s/%s' % (case['inner'], case['where'], '+'.join('%s-%s' % tuple(o) for o in case['outer']))
    if r['inconclusive'] is None:
        if r['state'] != 'finished':
            viol.append(V('nested-not-finished', 'nested-not-finished:%s:%s' % (r['state'], case['inner']), 'a workchain whose step runs another process to completion ended %s %s (%s)' % (r['state'], r['exception'], shape)))
        want = len(case['outer']) + (case['depth'] if case['inner'] == 'wc' else 0)
        if r['state'] == 'finished' and len(r['log']) != want:
            viol.append(V('nested-steps', 'nested-steps:%s' % case['inner'], 'expected %d barrier observations, got %s (%s)' % (want, r['log'], shape)))
        for who, key, done, val, exp in r['log']:
            if not done:
                viol.append(V('barrier-broken', 'barrier-broken:nested:%s:%s' % (who, case['where']), '%s step after the registering step entered with %s not terminated (%s)' % (who, key, shape)))
            elif val != exp:
                viol.append(V('ctx-wrong', 'ctx-wrong:nested:%s:%s' % (who, case['where']), '%s ctx[%s]=%r expected %r (%s)' % (who, key, val, exp, shape)))
    res = {'viol': viol, 'obs': obs, 'inconclusive': r['inconclusive'], 'key': ['nested', shape, case['depth']], 'nontrivial': True}
    res['sample'] = {'program': 'nested', 'shape': shape, 'log': r['log'], 'final_state': r['state']}
    return res


def run_case(case):
    if case.get('kind') == 'nested':
        return run_nested(case)
    rec = wcprog.run_case(case)
    viol = judges.judge_c10(rec)
    obs = {'barrier_checks': 0, 'ctx_checks': 0, 'failures': {}, 'kinds': {}, 'how': {}, 'early_completions': 0, 'final': {}, 'terminated_before_registration': 0, 'failure_while_paused': 0}
    steps = case['program']['steps']
    for e in rec['events']:
        if e[0] == 'trace' and e[1] == 'enter' and e[2] > 0:
            obs['barrier_checks'] += len(e[6])
            obs['ctx_checks'] += len(e[5])
    obs['equal_children_runs'] = int(bool(case['program'].get('equal_children')))
    obs['failure_callback_races'] = int(bool(case.get('race')))
    obs['failures_with_a_withdrawn_kill'] = int(bool(case.get('withdrawn_kill')))
    paused_at_completion = any(a['kind'] in ('complete', 'child') and a.get('paused_before') for a in rec['acts'])
    for c in rec['extra']['completions']:
        if c[1][0] in ('exc', 'cancel', 'killed') and paused_at_completion:
            obs['failure_while_paused'] = 1
        if c[1][0] in ('exc', 'cancel', 'killed'):
            obs['failures'][c[1][0]] = obs['failures'].get(c[1][0], 0) + 1
        if c[1][0] == 'exc' and len(c[1]) > 1 and 'unprintable' in str(c[1][1]):
            obs['unprintable_failures'] = obs.get('unprintable_failures', 0) + 1
        if c[1][0] == 'value' and len(c[1]) > 1 and c[1][1] in (0, '', []):
            obs['falsy_results'] = obs.get('falsy_results', 0) + 1
        if c[1][0] == 'value' and len(c[1]) > 1 and c[1][1] is None:
            obs['none_results'] = obs.get('none_results', 0) + 1
        if c[1][0] == 'value' and len(c[1]) > 1 and c[1][1] == '@EXCVAL':
            obs['exception_objects_as_results'] = obs.get('exception_objects_as_results', 0) + 1  # (a result, not a failure)
        if c[1][0] == 'value' and len(c[1]) > 1 and c[1][1] == '@NOCOPY':
            obs['uncopyable_results'] = obs.get('uncopyable_results', 0) + 1
    for st in steps:
        for _k, _i, kind, how in st['reg']:
            if _k in ('get', 'setdefault'):
                obs['reserved_name_keys'] = 1
            obs['kinds'][kind] = obs['kinds'].get(kind, 0) + 1
            obs['how'][how] = obs['how'].get(how, 0) + 1
    for a in rec['acts']:
        if a['kind'] == 'complete' and a['state_before'] != 'waiting' and a['ret'] == ['value', None]:
            obs['early_completions'] += 1
    # an "old" child that had already terminated when the step that registers it was entered
    for k, st in enumerate(steps):
        for _key, idx, kind, _how in st['reg']:
            if kind == 'oldchild':
                for e in rec['events']:
                    if e[0] == 'trace' and e[1] == 'enter' and e[2] == k + 1 and e[6].get(str(idx)):
                        pass
                child = rec['extra']['children'].get(str(idx))
                order = rec['extra'].get('done_order', [])
                enter_k = next((i for i, e in enumerate(rec['events']) if e[0] == 'trace' and e[1] == 'enter' and e[2] == k), None)
                if child and enter_k is not None and child['state'] in ('finished', 'excepted', 'killed'):
                    acts_before = [a for a in rec['acts'] if a['kind'] == 'child' and a['arg'][0] == idx]
                    if acts_before and acts_before[0]['nwait'] <= k:
                        obs['terminated_before_registration'] = obs.get('terminated_before_registration', 0) + 1
    if rec['final']:
        obs['final'][rec['final']['state']] = 1
    res = {'viol': viol, 'obs': obs, 'inconclusive': rec['inconclusive'], 'key': [case['name'], case['plan']],
           'nontrivial': obs['barrier_checks'] > 0 or bool(obs['failures'])}
    res['sample'] = {'program': case['name'], 'steps': steps, 'plan': case['plan'], 'final_state': rec['final']['state'] if rec['final'] else None,
                     'exception': rec['final']['exception'] if rec['final'] else None, 'ctx': rec['extra'].get('ctx'),
                     'completions': rec['extra']['completions']}
    return res
