"""C08 -- resuming from any checkpoint reproduces the uninterrupted execution."""
import itertools
import os
import pickle
import shutil
import tempfile

import plumpy
import yaml

from pv import generated, judges, outlines, persist, plans, programs
from pv.monitors import c14

ID = 'C08'
TITLE = 'checkpoint / restore reproduces the uninterrupted run'
ANCHORS = ['plumpy.process_states:Running.load_instance_state', 'plumpy.process_states:Waiting.load_instance_state', 'plumpy.workchains:_BlockStepper.load_instance_state', 'plumpy.workchains:_IfStepper.load_instance_state', 'plumpy.workchains:_WhileStepper.load_instance_state', 'plumpy.mixins:ContextMixin.load_instance_state', 'plumpy.processes:Process.recreate_from']
LEVEL = 'exploration'
TECHNIQUE = ('runtime monitoring by differential execution: every program / outline is run uninterrupted and again with subsets of its step '
             'boundaries as crash points (snapshot inside the state-entered notification, instance abandoned, bundle carried through pickle / a '
             'persister / YAML, loaded into a fresh event loop, same resume values replayed); persisted trace, outputs, ctx, state and result compared')
RULE = ('process programs (sync/async steps, waits with resume values, continuation arguments mutated in place, outputs, context, steps reading '
        'their inputs; inputs None / {} / non-empty; every way of ending) and outline WorkChains (random ASTs to depth 3 with if/elif/else bodies '
        'of up to 4 steps, loops, returns) x every subset of <=2 (thorough 3) boundaries as crash points + "all boundaries"; distinct by '
        '(program, inputs, crash set, transport); non-trivial when >=1 restore happened')
RULE += ('; also: live persisters with the writing instance running on (lost work), mid-step saves, another loop being current at load time, aliased context objects, checkpoints written from the paused hook of a pause requested inside a step')
ASSUMPTIONS = ['steps depend only on persisted state by construction (trace and scripts live in persisted members / ctx / inputs)',
               'WorkChains waiting on futures are not checkpoint points (they cannot be saved)']
REQUIRED = ['loaded_twice', 'checkpoint_at_every_boundary', 'paused_hook_checkpoints', 'restores', 'kinds/process', 'kinds/outline', 'transport/pickle', 'crash_in_wait', 'multi_restore', 'traces_compared', 'ctx_compared',
            'inputs/none', 'inputs/empty', 'inputs/given', 'outline_nodes/if', 'outline_nodes/while', 'elif_or_else_body_crash', 'lost_work_restores', 'transport/mem-live', 'transport/pkfile-live', 'transport/bundle-live', 'codec_processes', 'midstep_saves', 'loaded_with_other_loop_current', 'midstep_restores', 'earlier_checkpoints_in_the_same_state']
BOUNDS = {'quick': 'basic family + 12 random programs, 60 outlines, crash subsets <=2', 'thorough': '+150 random programs, 800 outlines, subsets <=3, persister/YAML transports'}


def _progs(tier, seed):
    rng = plans.rng_for(seed, 'c08p')
    S = programs.step
    progs = dict(programs.basic_programs())
    progs['reads_inputs'] = {'steps': [S(['cont', [], {}], yields=1, fx=[(0, ['inp', 'k'])]), S(['wait', 'w', None], sync=True, fx=[(0, ['inp', 'k'])]),
                                       S(['value', 1], yields=1, fx=[(1, ['inp', 'z'])])]}
    progs['reads_identity'] = {'steps': [S(['cont', [], {}], yields=1, fx=[(0, ['ident'])]), S(['wait', 'w', None], sync=True, fx=[(0, ['ident'])]),
                                         S(['value', 1], yields=1, fx=[(1, ['ident'])])]}
    # every step emits into the same nested output namespace (a checkpoint must not see the later emissions)
    progs['nested_outs'] = {'steps': [S(['cont', [], {}], yields=1, fx=[(0, ['out', 'ns.a', 1])]), S(['cont', [], {}], sync=True, fx=[(0, ['out', 'ns.b', [2]])]),
                                      S(['wait', 'w', None], sync=True, fx=[(0, ['out', 'ns.deep.c', 3])]), S(['value', 4], yields=1, fx=[(0, ['out', 'ns.d', 4])])]}
    progs['mutating'] = {'steps': [S(['cont', [[1, 2], {'a': 1}], {'kw': [3]}], sync=True), S(['cont', [[5]], {}], yields=1), S(['stop', 'r', False], sync=True)],
                         'mutate_args': True}
    for k in range(12 if tier == 'quick' else 150):
        p = programs.random_program(rng, 5, allow_fail=True)
        if rng.random() < 0.4:
            p['steps'][0]['fx'].append([0, ['inp', 'k']])
            p['steps'][-1]['fx'].append([0, ['inp', 'k']])
        progs['rnd%d' % k] = p
    return progs


def _st(*names):
    return [['step', n] for n in names]


#: (outline, predicate script): nested blocks that open a body
NESTED_FIRST = [
    ([['step', 's0'], ['while', 'p0', [['if', [['p1', _st('s1', 's2')]], None], ['step', 's3']]], ['step', 's4']], [True, True, True, True, False]),
    ([['step', 's0'], ['while', 'p0', [['if', [['p1', _st('s1', 's2')]], _st('s5', 's6')], ['step', 's3']]], ['step', 's4']], [True, False, True, True, False]),
    ([['step', 's0'], ['if', [['p0', [['while', 'p1', _st('s1', 's2')], ['step', 's3']]]], _st('s5')], ['step', 's4']], [True, True, True, False]),
    ([['while', 'p0', [['while', 'p1', _st('s1', 's2')], ['step', 's3']]], ['step', 's4']], [True, True, True, False, True, True, False, False]),
    ([['if', [['p0', [['if', [['p1', _st('s1', 's2')]], None], ['step', 's3']]]], _st('s5')], ['step', 's4']], [True, True]),
    ([['if', [['p0', _st('s9')], ['p1', [['while', 'p2', _st('s1', 's2')], ['step', 's3']]]], _st('s5')], ['step', 's4']], [False, True, True, True, False]),
    ([['if', [['p0', _st('s9')]], [['while', 'p2', _st('s1', 's2')], ['step', 's3']]], ['step', 's4']], [False, True, True, False]),
]


def gen_cases(tier, seed):
    rng = plans.rng_for(seed, 'c08')
    M = 2 if tier == 'quick' else 3
    transports = ['pickle'] if tier == 'quick' else ['pickle', 'mem', 'pkfile', 'yaml']
    for name, prog in sorted(_progs(tier, seed).items()):
        nb = len(prog['steps']) + programs.count_waits(prog)
        for inputs in (None, {}, {'k': 5}, {'k': 5, 'todo': [1], 'cfg': {'flags': []}}):
            if inputs is not None and not any(fx[1][0] == 'inp' for st in prog['steps'] for fx in st.get('fx', ())) and name != 'long':
                continue
            if inputs and 'todo' in inputs and name not in ('long', 'reads_inputs'):
                continue  # (mutable input values that the context-keeping program changes in place at every step)
            for ctxprog in ((True,) if inputs and 'todo' in inputs else (False, True)):
                if ctxprog and name not in ('long', 'wait2', 'reads_inputs', 'mutating') and not name.startswith('rnd1'):
                    continue
                sets = [list(c) for k in range(1, M + 1) for c in itertools.combinations(range(nb), k)] + [list(range(nb))]
                if len(sets) > 40:
                    sets = rng.sample(sets, 40)
                for cs in sets:
                    yield {'kind': 'process', 'name': name, 'program': prog, 'inputs': inputs, 'ctx': ctxprog, 'crash': cs,
                           'transport': rng.choice(transports), 'codec': rng.random() < 0.25, 'other_loop_current': rng.choice([False, False, False, False, False, False, True, True, 'none']),
                           'load_twice': len(cs) % 2 == 1}
                # checkpoints written by a persister; the writing instance runs on for 1-3 boundaries before the crash (lost work)
                for cs in rng.sample(sets, min(len(sets), 6 if tier == 'quick' else 20)):
                    yield {'kind': 'process', 'name': name, 'program': prog, 'inputs': inputs, 'ctx': ctxprog, 'crash': cs,
                           'transport': rng.choice(['mem-live', 'pkfile-live', 'bundle-live']), 'lag': rng.randint(0, 3)}
                    # ... or the instance saves itself at every boundary and is lost at the crash points
                    yield {'kind': 'process', 'name': name, 'program': prog, 'inputs': inputs, 'ctx': ctxprog, 'crash': cs,
                           'transport': rng.choice(['mem-live', 'pkfile-live']), 'lag': 0, 'save_every': True}
                # "persist when paused": a pause requested from inside step k, the checkpoint written from the paused hook (after the
                # step has returned and the next state was entered), the instance abandoned there; the restored process is played
                for k in rng.sample(range(len(prog['steps'])), min(len(prog['steps']), 3 if tier == 'quick' else 6)):
                    yield {'kind': 'process', 'name': name, 'program': prog, 'inputs': inputs, 'ctx': ctxprog, 'crash': [], 'paused_crash': k,
                           'transport': rng.choice(transports)}
    nout = 60 if tier == 'quick' else 800
    fixed = list(NESTED_FIRST)
    for i in range(nout + len(fixed)):
        if i < len(fixed):
            # a block (loop or branch) as the FIRST instruction of a loop / branch body, crash points inside it, in every iteration
            ast, preds = fixed[i]
            rets = []
        else:
            ast = outlines.random_ast(rng, rng.randint(1, 3), max_body=4)
            preds = [rng.random() < 0.6 for _ in range(rng.randint(0, 10))]
            # ('@WAIT': the step returns a plain wait command -- the chain is resumed from outside and goes on with its outline)
            rets = [rng.choice([None] * 12 + ['@WAIT', '@WAIT'] + [0, 7, 'r']) for _ in range(rng.randint(0, 12))]
        trace, _res, how = outlines.interpret(ast, preds, rets, max_calls=80)
        if how == 'budget':
            continue
        nb = sum(1 for t in trace if t.startswith('s')) + 1
        sets = [list(c) for k in range(1, M + 1) for c in itertools.combinations(range(nb), k)] + [list(range(nb))]
        if i < len(fixed):
            sets = [[b] for b in range(nb)] + rng.sample([c for c in sets if len(c) > 1], min(8, len([c for c in sets if len(c) > 1])))
        elif len(sets) > 25:
            sets = rng.sample(sets, 25)
        for cs in sets:
            yield {'kind': 'outline', 'ast': ast, 'preds': preds, 'rets': rets, 'emit': i % 2 == 0, 'crash': cs, 'transport': rng.choice(transports),
                   'midsave': i % 3 == 0, 'load_twice': i % 2 == 1}
        for cs in rng.sample(sets, min(len(sets), 6 if tier == 'quick' else 12)):
            yield {'kind': 'outline', 'ast': ast, 'preds': preds, 'rets': rets, 'emit': i % 2 == 0, 'crash': cs,
                   'transport': rng.choice(['mem-live', 'pkfile-live', 'bundle-live']), 'lag': rng.randint(0, 3)}
            yield {'kind': 'outline', 'ast': ast, 'preds': preds, 'rets': rets, 'emit': i % 2 == 0, 'crash': cs,
                   'transport': rng.choice(['mem-live', 'pkfile-live']), 'lag': 0, 'save_every': True}
        for k in rng.sample(range(nb - 1), min(nb - 1, 3 if tier == 'quick' else 6)):
            yield {'kind': 'outline', 'ast': ast, 'preds': preds, 'rets': rets, 'emit': i % 2 == 0, 'crash': [], 'paused_crash': k,
                   'transport': rng.choice(transports)}
        # a checkpoint written in the middle of step k (by the step itself), after one written on entering the same RUNNING state (what a
        # persisting observer does); the instance is lost during that step and the process goes on from the later checkpoint
        for k in rng.sample(range(nb - 1), min(nb - 1, 2 if tier == 'quick' else 5)):
            # (the steps return None here: what a scripted step returns goes by the number of step calls made, which a step run again shifts)
            yield {'kind': 'outline-midstep', 'ast': ast, 'preds': preds, 'rets': [], 'emit': i % 2 == 0, 'crash': [], 'midstep': k, 'transport': 'pickle'}


def _transport(kind, workdir):
    if kind == 'pickle':
        return None
    if kind == 'yaml':
        # (the keys in the order of the mappings: a context is read in the order in which its entries were made)
        return lambda b: yaml.load(yaml.dump(b, sort_keys=False), Loader=yaml.Loader)
    if kind == 'mem':
        pers = plumpy.InMemoryPersister()
    else:
        pers = plumpy.PicklePersister(workdir)

    class _P:
        pid = 'x'

    def go(bundle):
        # store / load through the persister's own bundle path (bundle written under a synthetic key)
        if kind == 'mem':
            pers._checkpoints.setdefault('k', {})[None] = pickle.loads(pickle.dumps(bundle))
            return pers.load_checkpoint('k', None)
        path = os.path.join(workdir, 'k.pickle')
        with open(path, 'wb') as fh:
            pickle.dump(plumpy.persistence.PersistedPickle(plumpy.persistence.PersistedCheckpoint('k', None), bundle), fh)
        return pers.load_checkpoint('k', None)

    return go


_CODEC = {}


def _codec_base(base):
    if base not in _CODEC:
        cls = type(base.__name__ + 'Codec', (programs.CodecMixin, base), {})
        generated.register(cls)
        _CODEC[base] = cls
    return _CODEC[base]


def _summary(r):
    v = r['views']
    return {'state': v['state'], 'result': v['result'], 'successful': v['successful'], 'exception': v['exception'], 'killed_msg': v['killed_msg'],
            'outputs': v['outputs'], 'ctx': v.get('ctx'), 'trace': r['trace']}


_REF = {}


class _SavingObserver(plumpy.ProcessListener):
    """Writes (and throws away) a checkpoint whenever the process enters RUNNING or WAITING, as a persisting observer would."""

    def __init__(self):
        super().__init__()
        self.saves = 0

    def on_process_running(self, process):
        plumpy.Bundle(process)
        self.saves += 1

    on_process_waiting = on_process_running


def _run_midstep(case):
    """The instance is lost in the middle of a step, after that step wrote a checkpoint: going on from it, the step in progress is the
    first thing that runs (again, or its remainder is considered done -- both are accepted), no predicate decided before is asked
    again, and from there on calls and result are those of the uninterrupted run."""
    from pv.driver import BudgetExceeded, Driver
    V = judges.V
    obs = {'midstep_restores': 0, 'kinds': {'outline-midstep': 1}}
    cls = outlines.outline_class(case['ast'])
    exp_trace, exp_result, how = outlines.interpret(case['ast'], case['preds'], case['rets'], max_calls=80)
    k = case['midstep']
    inputs = {'preds': list(case['preds']), 'rets': list(case['rets']), 'emit': case['emit'], 'midsave_keep': k}
    del outlines.MIDSNAPS[:]
    with Driver(4000) as drv:
        wc = cls(inputs=dict(inputs), loop=drv.loop)
        observer = _SavingObserver()
        wc.add_process_listener(observer)
        drv.loop.create_task(wc.step_until_terminated())
        try:
            drv.pump()
        except BudgetExceeded:
            return {'viol': [], 'obs': obs, 'inconclusive': 'budget', 'key': case, 'nontrivial': False}
        ref_state, ref_result = wc.state.value, (wc.result() if wc.state.value == 'finished' else None)
        ref_tr = list(wc.ctx.get('tr', []))
    if not outlines.MIDSNAPS or ref_state != 'finished':
        return {'viol': [], 'obs': obs, 'inconclusive': 'step-not-reached' if not outlines.MIDSNAPS else 'reference-not-finished', 'key': case, 'nontrivial': False}
    snap = outlines.MIDSNAPS[0]
    del outlines.MIDSNAPS[:]
    viol = []
    import pickle
    with Driver(4000) as drv:
        try:
            wc2 = pickle.loads(snap).unbundle(plumpy.LoadSaveContext(loop=drv.loop))
        except Exception as exc:  # noqa: BLE001
            viol.append(V('restore-raised', 'restore-raised:midstep:%s' % type(exc).__name__, 'loading the checkpoint written in the middle of step %d raised %r' % (k, exc)))
            return {'viol': viol, 'obs': obs, 'key': case, 'nontrivial': True}
        done_before = list(wc2.ctx.get('tr', []))
        drv.loop.create_task(wc2.step_until_terminated())
        try:
            drv.pump()
        except BudgetExceeded:
            return {'viol': [], 'obs': obs, 'inconclusive': 'budget', 'key': case, 'nontrivial': False}
        state, result = wc2.state.value, (wc2.result() if wc2.state.value == 'finished' else None)
        tr = list(wc2.ctx.get('tr', []))
    del outlines.MIDSNAPS[:]
    obs['midstep_restores'] = 1
    obs['earlier_checkpoints_in_the_same_state'] = int(observer.saves > 0)
    after = tr[len(done_before):]
    n = len(done_before)  # (the step in progress had recorded itself already: it is the last of these)
    accepted = [ref_tr[n - 1:], ref_tr[n:]]
    if done_before != ref_tr[:n]:
        viol.append(V('restored-state-differs', 'restored-state-differs:midstep', 'the checkpoint written in step %d holds the calls %s, the run had made %s' % (k, done_before, ref_tr[:n])))
    elif after not in accepted:
        viol.append(V('step-differs', 'step-differs:midstep', 'going on from the checkpoint written in the middle of step %d (calls so far %s) the calls are %s; the uninterrupted run '
                      'goes on with %s (outline %s)' % (k, done_before, after, ref_tr[n - 1:], c09_shape(case))))
    elif state != ref_state or programs._jsonable(result) != programs._jsonable(ref_result):
        viol.append(V('final-result', 'final-result:midstep', 'going on from the checkpoint written in the middle of step %d ends %s with %r, the uninterrupted run %s with %r' % (
            k, state, result, ref_state, ref_result)))
    return {'viol': viol, 'obs': obs, 'key': case, 'nontrivial': True,
            'sample': {'kind': 'outline-midstep', 'what': c09_shape(case), 'step': k, 'calls_before': done_before, 'calls_after': after}}


def run_case(case):
    V = judges.V
    if case['kind'] == 'outline-midstep':
        return _run_midstep(case)
    obs = {'restores': 0, 'kinds': {case['kind']: 1}, 'transport': {case['transport']: 1}, 'crash_in_wait': 0, 'multi_restore': 0, 'traces_compared': 0,
           'ctx_compared': 0, 'inputs': {}, 'outline_nodes': {}, 'elif_or_else_body_crash': 0, 'lost_work_restores': 0}
    workdir = tempfile.mkdtemp(prefix='c08-', dir=os.environ.get('PV_WORK') or None)
    try:
        if case['kind'] == 'process':
            base = c14.CtxProg if case['ctx'] else programs.ProgBase
            if case.get('codec'):
                base = _codec_base(base)
            cls = programs.program_class(case['program'], base)
            inputs = case['inputs']
            obs['inputs']['none' if inputs is None else ('empty' if not inputs else 'given')] = 1

            def make(loop):
                return cls(inputs=None if inputs is None else dict(inputs), loop=loop)

            resume = lambda j: ['rv%d' % j]  # noqa: E731
            label = '%s:inputs=%s' % ('ctxprocess' if case['ctx'] else 'process', 'none' if inputs is None else ('empty' if not inputs else 'given'))
            refkey = repr((case['program'], inputs, case['ctx'], bool(case.get('codec'))))
            obs['codec_processes'] = int(bool(case.get('codec')))
        else:
            cls = outlines.outline_class(case['ast'])

            def make(loop):
                return cls(inputs={'preds': list(case['preds']), 'rets': list(case['rets']), 'emit': case['emit'], 'midsave': bool(case.get('midsave'))}, loop=loop)

            resume = lambda j: []  # noqa: E731
            label = 'outline'
            refkey = repr((case['ast'], case['preds'], case['rets'], case['emit'], bool(case.get('midsave'))))
            obs['midstep_saves'] = int(bool(case.get('midsave')))
            from pv.monitors import c09
            for k in c09._kinds(case['ast'], {}):
                obs['outline_nodes'][k] = 1
        if refkey not in _REF:
            _REF[refkey] = persist.run_with_crashes(make, [], resume)
        ref = _REF[refkey]
        if ref.get('inconclusive'):
            return {'viol': [], 'obs': obs, 'inconclusive': 'reference:%s' % ref['inconclusive'], 'key': case, 'nontrivial': False}
        if case['transport'].endswith('-live'):
            pers = {'mem-live': plumpy.InMemoryPersister, 'pkfile-live': lambda: plumpy.PicklePersister(workdir), 'bundle-live': lambda: None}[case['transport']]()
            r = persist.run_with_crashes(make, case['crash'], resume, persister=pers, lag=0 if case.get('save_every') else case['lag'],
                                         save_every=bool(case.get('save_every')) and pers is not None)
            obs['checkpoint_at_every_boundary'] = int(bool(case.get('save_every')) and pers is not None and r.get('restores', 0) > 0)
            obs['lost_work_restores'] = int(case['lag'] > 0 and r.get('restores', 0) > 0)
        else:
            r = persist.run_with_crashes(make, case['crash'], resume, transport=_transport(case['transport'], workdir),
                                         other_loop_current=case.get('other_loop_current') or False, load_twice=bool(case.get('load_twice')),
                                         paused_crashes=() if case.get('paused_crash') is None else (case['paused_crash'],))
            obs['paused_hook_checkpoints'] = sum(1 for e in r.get('log', ()) if e[0] == 'checkpoint-in-paused-hook')
            obs['loaded_with_other_loop_current'] = int(bool(case.get('other_loop_current')) and r.get('restores', 0) > 0)
            obs['loaded_twice'] = int(bool(case.get('load_twice')) and r.get('restores', 0) > 0)
            obs['loaded_with_no_loop_current'] = int(case.get('other_loop_current') == 'none' and r.get('restores', 0) > 0)
    finally:
        shutil.rmtree(workdir, ignore_errors=True)
    if r.get('inconclusive'):
        viol = []
        if r['inconclusive'] == 'load-raised':
            viol.append(V('restore-raised', 'restore-raised:%s' % r['load_raised'].split(':')[0], 'loading the checkpoint raised %s (crash points %s, transport %s, '
                          'current loop of the loading thread: %s)\n%s' % (r['load_raised'], case['crash'], case.get('transport'),
                                                                           {True: 'another', 'none': 'none'}.get(case.get('other_loop_current'), 'the same'), r['where'])))
        if str(r['inconclusive']).startswith('stuck'):
            viol.append(V('restored-run-stuck', 'restored-run-stuck:%s' % label, 'restored run got stuck (%s), crash points %s' % (r['inconclusive'], case['crash'])))
        return {'viol': viol, 'obs': obs, 'inconclusive': None if viol else r['inconclusive'], 'key': case, 'nontrivial': False}
    obs['restores'] = r['restores']
    obs['multi_restore'] = int(r['restores'] >= 2)
    obs['crash_in_wait'] = sum(1 for e in r['log'] if e[0] == 'checkpoint' and e[2] == 'waiting')
    a, b = _summary(r), _summary(ref)
    viol = []
    for nth, keys, now, then in r.get('restore_mismatches', [])[:1]:
        viol.append(V('restored-state-differs', 'restored-state-differs:%s:%s' % ('+'.join(keys), label), 'the process loaded at restore %d reports %r, when the checkpoint '
                      'was written the process reported %r (crash points %s, transport %s, lost boundaries %s)' % (nth, now, then, case['crash'], case['transport'], case.get('lag'))))
    obs['restore_points_compared'] = r.get('restores', 0)
    obs['traces_compared'] = 1
    obs['ctx_compared'] = int(a['ctx'] is not None)
    if case['kind'] == 'outline':
        obs['elif_or_else_body_crash'] = int(_has_elif_else(case['ast']) and r['restores'] > 0)
        ta, tb = (a['ctx'] or {}).get('tr'), (b['ctx'] or {}).get('tr')
    else:
        ta, tb = [t for t in a['trace'] if t[0] in ('enter', 'inp', 'out', 'ident')], [t for t in b['trace'] if t[0] in ('enter', 'inp', 'out', 'ident')]
    if ta != tb:
        k = next((i for i, (x, y) in enumerate(zip(ta or [], tb or [])) if x != y), min(len(ta or []), len(tb or [])))
        kind = 'step-repeated' if ta and tb and len(ta) > len(tb) else ('step-skipped' if ta is not None and tb is not None and len(ta) < len(tb) else 'step-differs')
        viol.append(V(kind, '%s:%s' % (kind, label), 'after restores at %s the executed steps differ from the uninterrupted run at position %d: %s vs %s' % (
            case['crash'], k, (ta or [])[k:k + 3], (tb or [])[k:k + 3])))
    else:
        for field in ('state', 'result', 'successful', 'exception', 'killed_msg', 'outputs', 'ctx'):
            if a[field] != b[field]:
                viol.append(V('final-%s' % field, 'final-%s:%s' % (field, label), 'after restores at %s %s is %r, uninterrupted run gives %r' % (
                    case['crash'], field, a[field], b[field])))
                break
    res = {'viol': viol, 'obs': obs, 'key': case, 'nontrivial': r['restores'] > 0}
    res['sample'] = {'kind': case['kind'], 'what': case.get('name') or c09_shape(case), 'crash_points': case['crash'], 'transport': case['transport'],
                     'restores': r['restores'], 'final_state': a['state'], 'log': r['log'][:8]}
    return res


def c09_shape(case):
    from pv.monitors import c09
    return c09._shape(case['ast'])


def _has_elif_else(ast):
    for n in ast:
        if n[0] == 'if':
            if len(n[1]) > 1 or n[2] is not None:
                return True
            if any(_has_elif_else(b) for _p, b in n[1]):
                return True
        elif n[0] == 'while' and _has_elif_else(n[2]):
            return True
    return False
