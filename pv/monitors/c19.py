"""C19 -- any Savable round-trips its declared members through the named loader."""
import asyncio
import copy
import sys

import os
import shutil

import plumpy
from plumpy import loaders, persistence
from plumpy.persistence import Savable, SavableFuture, auto_persist

from pv import generated, judges, plans

ID = 'C19'
TITLE = 'Savable round trip / loader precedence'
ANCHORS = ['plumpy.persistence:Savable.save_members', 'plumpy.persistence:Savable._get_value', 'plumpy.persistence:_ensure_object_loader', 'plumpy.persistence:Savable.load', 'plumpy.persistence:Savable.save', 'plumpy.persistence:SavableFuture.recreate_from', 'plumpy.persistence:SavableFuture.save_instance_state', 'plumpy.loaders:DefaultObjectLoader.load_object', 'plumpy.loaders:DefaultObjectLoader.identify_object', 'plumpy.loaders:DefaultObjectLoader.load_object']
LEVEL = 'exploration'
TECHNIQUE = ('runtime monitoring with a reference check per member kind: generated Savable class shapes are saved, the original mutated, the state '
             'recreated and every declared member compared by kind; loader configurations (default, global custom, per-save custom, unknown class) '
             'observed through a counting custom loader')
RULE = ('class shapes: inheritance chains of depth 1-3 with auto_persist at some levels (re-declaration included), members of kinds {plain nested '
        'value, bound method of self, nested Savable (recursive to depth 2), SavableFuture pending / result / exception / cancelled} x member '
        'values x loader configuration {default, global custom, per-save custom (found through the saved state), unknown class}; distinct by '
        '(shape, values, loader mode); non-trivial when >=2 member kinds are present')
RULE += ('; also: members declared from the persist() hook or saved manually, ancestors saved before / after, futures resolved with a Savable, a shadowing class, a class name rebound after the first save, load and save contexts reused across saves')
ASSUMPTIONS = ['custom loaders are constructible without arguments (the saved state records the loader class)', 'exceptions compare by type and args']
REQUIRED = ['falsy_per_save_loaders', 'lost_loader_probes', 'property_backed_members', 'roundtrips', 'kinds/plain', 'kinds/method', 'kinds/savable', 'kinds/future', 'future_states/pending', 'future_states/result',
            'future_states/exception', 'future_states/exception-falsy', 'future_states/exception-base', 'saved_states_as_data', 'future_states/cancelled', 'future_states/result-savable', 'manually_saved', 'hook_declared', 'loader/default', 'loader/global', 'loader/persave', 'loader/unknown', 'loader/ctxreuse',
            'mutation_probes', 'inherited_checks', 'rebound_name_probes', 'second_saves_same_context', 'refusing_loader_probes', 'global_loader_derived_from_recorded', 'loader/persave-anon', 'registry_loader_probes', 'foreign_method_probes', 'loaded_before_any_save_of_the_class', 'extended_context_copies', 'unimportable_module_probes', 'loader/persave-picky']
BOUNDS = {'quick': '150 shapes x 4 loader modes', 'thorough': '3000 shapes x 4 loader modes'}

PLAIN_VALUES = [1, 's', None, [1, [2, 3]], {'k': [1, 2], 'd': {'e': 5}}, (1, 2), [], {}, ('run', [10, 20], {'depth': 1}), {'t': ([1], 2)},
                # ('@FROZEN': a read-only mapping -- only the mapping is frozen, not the list it holds)
                {'@FROZEN': {'tags': ['a'], 'n': 1}}, [{'@FROZEN': {'items': [[1]]}}],
                # (data that happens to be somebody's saved state -- the dictionary ``save()`` returned, a Bundle: kept as data, e.g. the last
                # checkpoint of a child held by its supervisor; it is plain, it stays what it is)
                {'@STATE': 4}, {'@BUNDLE': 5}, {'held': {'@STATE': 6}}]


def _realize(v):
    """The value a description stands for ('@FROZEN' markers become AttributesFrozendict objects)."""
    if isinstance(v, dict):
        if '@STATE' in v:
            return Box(v['@STATE']).save()
        if '@BUNDLE' in v:
            return plumpy.Bundle(Box(v['@BUNDLE']))
        if '@FROZEN' in v:
            return plumpy.utils.AttributesFrozendict({k: _realize(x) for k, x in v['@FROZEN'].items()})
        return {k: _realize(x) for k, x in v.items()}
    if isinstance(v, list):
        return [_realize(x) for x in v]
    if isinstance(v, tuple):
        return tuple(_realize(x) for x in v)
    return v
FSTATES = ['pending', 'result', 'exception', 'cancelled', 'result-savable', 'exception-falsy', 'exception-base']


class CountingLoader(loaders.ObjectLoader):
    """A strict custom loader with its own identifier scheme: generated classes are named ``custom!<name>``, everything else
    ``custom!!<default identifier>``; an identifier it did not make itself is refused.  Look-ups are counted."""
    loads = 0
    identifies = 0

    def load_object(self, identifier):
        type(self).loads += 1
        if isinstance(identifier, str) and identifier.startswith('custom!!'):
            return loaders.DefaultObjectLoader().load_object(identifier[len('custom!!'):])
        if isinstance(identifier, str) and identifier.startswith('custom!'):
            try:
                return getattr(generated, identifier[len('custom!'):])
            except AttributeError:
                raise ValueError('unknown %s' % identifier)
        raise ValueError('identifier %r was not made by this loader' % (identifier,))

    def identify_object(self, obj):
        type(self).identifies += 1
        if getattr(obj, '__module__', None) == generated.__name__:
            return 'custom!%s' % obj.__name__
        return 'custom!!' + loaders.DefaultObjectLoader().identify_object(obj)


class PickyLoader(CountingLoader):
    """A registry-style loader: it knows the generated classes and nothing else, and says so (ValueError) when asked to identify
    anything else.  What it cannot identify cannot be saved through it -- and is not saved under some other loader's name either."""

    def identify_object(self, obj):
        if getattr(obj, '__module__', None) != generated.__name__:
            raise ValueError('%r is not registered with this loader' % (obj,))
        return super().identify_object(obj)

    def load_object(self, identifier):
        if not (isinstance(identifier, str) and identifier.startswith('custom!') and not identifier.startswith('custom!!')):
            raise ValueError('identifier %r was not made by this loader' % (identifier,))
        return super().load_object(identifier)


class FalsyCountingLoader(CountingLoader):
    def __len__(self):
        return 0

    def load_object(self, identifier):
        loaded = super().load_object(identifier)
        CountingLoader.loads += 1  # (the look-ups of every kind of counting loader are counted in one place)
        return loaded


class LenientCountingLoader(CountingLoader):
    """Also understands the default identifiers (needed where the writer cannot be given a loader, e.g. the PicklePersister)."""

    def load_object(self, identifier):
        if isinstance(identifier, str) and not identifier.startswith('custom!'):
            type(self).loads += 1
            CountingLoader.loads += 1
            return loaders.DefaultObjectLoader().load_object(identifier)
        loaded = super().load_object(identifier)
        CountingLoader.loads += 1
        return loaded


class RegistryLoader(loaders.ObjectLoader):
    """A loader backed by a dictionary of the names an application registered (none here)."""
    registry = {}

    def load_object(self, identifier):
        return self.registry[identifier]

    def identify_object(self, obj):
        return next(k for k, v in self.registry.items() if v is obj)


class Decoy(Savable):
    """What a loader that resolves names its own way hands out for every generated class."""

    def __init__(self, *args, **kwargs):
        pass


class RedirectingLoader(LenientCountingLoader):
    """A global loader whose class derives from the custom loader's, with a resolution of its own: every generated class is the
    ``Decoy`` to it.  A state that records the custom loader is none of its business."""

    def load_object(self, identifier):
        if isinstance(identifier, str) and identifier.startswith('custom!') and not identifier.startswith('custom!!'):
            return Decoy
        return super().load_object(identifier)


generated.register(Decoy, 'Decoy')
generated.register(RegistryLoader, 'RegistryLoader')
generated.register(RedirectingLoader, 'RedirectingLoader')
generated.register(CountingLoader, 'CountingLoader')
generated.register(PickyLoader, 'PickyLoader')
generated.register(FalsyCountingLoader, 'FalsyCountingLoader')
generated.register(LenientCountingLoader, 'LenientCountingLoader')


def gen_cases(tier, seed):
    rng = plans.rng_for(seed, 'c19')
    n = 150 if tier == 'quick' else 3000
    for i in range(n):
        shape = rand_shape(rng, 2)
        for mode in ('default', 'global', 'persave', 'unknown', 'ctxreuse'):
            yield {'shape': shape, 'mode': mode, 'i': i}
        # 'persave-globalsub': saved with a per-save custom loader, loaded while a global loader of a derived class (resolving names its
        # own way) is installed; 'persave-anon': the per-save loader's class has no importable name, so it cannot be recorded
        yield {'shape': shape, 'mode': 'persave-globalsub' if i % 2 else 'persave-anon', 'i': i}
        # 'persave-picky': the per-save loader refuses to identify what it does not know (e.g. plumpy's own future class of a member)
        if i % 3 == 0:
            yield {'shape': shape, 'mode': 'persave-picky', 'i': i}


def rand_shape(rng, nest):
    """shape = {'levels': [{'decl': [...], 'redecl': bool, 'undeclared': [...]}, ...], 'members': {name: [kind, value]}}"""
    depth = rng.randint(1, 3)
    levels = []
    members = {}
    k = 0
    for lv in range(depth):
        decl = []
        decorated = rng.random() < 0.75 or lv == 0
        for _ in range(rng.randint(0, 3)):
            name = 'm%d' % k
            k += 1
            r = rng.random()
            if r < 0.45:
                members[name] = ['plain', copy.deepcopy(rng.choice(PLAIN_VALUES))]
            elif r < 0.6:
                members[name] = ['method', 'meth%d' % rng.randint(0, 2)]
            elif r < 0.8 and nest > 0:
                members[name] = ['savable', rand_shape(rng, nest - 1)]
            else:
                members[name] = ['future', rng.choice(FSTATES), copy.deepcopy(rng.choice(PLAIN_VALUES))]
            decl.append(name)
        undeclared = []
        if rng.random() < 0.3:
            undeclared.append('u%d' % lv)
        redecl = bool(levels and levels[-1]['decl'] and rng.random() < 0.2)
        # a decorated level may instead declare its members from the ``persist()`` class hook (``cls.auto_persist(...)``)
        hook = bool(decorated and decl and rng.random() < 0.3)
        # ... or save and load them itself, with the save_members / load_members helpers, from overridden save / load_instance_state
        manual = bool(decorated and decl and not hook and rng.random() < 0.2)
        levels.append({'decl': decl if decorated else [], 'pending': [] if decorated else decl, 'redecl': redecl and not hook and not manual,
                       'undeclared': undeclared, 'hook': hook, 'manual': manual, 'prop': bool(decorated and decl and rng.random() < 0.25)})
        if not decorated:
            for name in decl:
                members.pop(name)
    return {'levels': levels, 'members': members}


_CLS = {}


def build_class(shape, twin=False):
    # (twin: a second, independent chain of classes of the same shape -- classes no instance of which is ever saved in this interpreter)
    key = repr(shape['levels']) + repr(sorted((k, v[0]) for k, v in shape['members'].items())) + ('twin' if twin else '')
    if key in _CLS:
        return _CLS[key]
    base = Savable
    chain = []
    for lv, level in enumerate(shape['levels']):
        def init(self, values, _lv=lv, _level=level, _base=base):
            if _base is not Savable:
                _base.__init__(self, values)
            for name in _level['decl']:
                setattr(self, name, make_value(self, values[name]))
            for name in _level['undeclared']:
                setattr(self, name, 'not persisted')

        ns = {'__init__': init}
        for m in range(3):
            ns['meth%d' % m] = _mk_method(m)
        if level.get('prop') and level['decl']:
            # the first member this level declares is a property with a setter (the value lives under another name): declared members
            # are attributes, and attributes are set the way the class says
            ns[level['decl'][0]] = _mk_property(level['decl'][0])
        name = 'Sav_%d_%d' % (len(_CLS), lv)
        cls = type(name, (base,), ns)
        generated.register(cls, name)
        decl = list(level['decl'])
        if level['redecl'] and chain:
            decl = decl + chain[-1][1][:1]  # re-declare an inherited member
        if level.get('manual'):
            def save_instance_state(self, out_state, save_context, _cls=cls, _decl=tuple(decl), _lv=lv):
                super(_cls, self).save_instance_state(out_state, save_context)
                self.save_members(_decl, out_state, save_context)
                # (an entry of the class's own in the user section of the meta data: the public set_custom_meta / get_custom_meta)
                Savable.set_custom_meta(out_state, 'schema-of-level-%d' % _lv, len(_decl))

            def load_instance_state(self, saved_state, load_context, _cls=cls, _decl=tuple(decl), _lv=lv):
                super(_cls, self).load_instance_state(saved_state, load_context)
                self.load_members(_decl, saved_state, load_context)
                if Savable.get_custom_meta(saved_state, 'schema-of-level-%d' % _lv) != len(_decl):
                    raise RuntimeError('the meta entry of the class came back changed')

            cls.save_instance_state = save_instance_state
            cls.load_instance_state = load_instance_state
        elif level.get('hook'):
            def persist(kls, _cls=cls, _decl=tuple(decl)):
                super(_cls, kls).persist()
                kls.auto_persist(*_decl)

            cls.persist = classmethod(persist)
        elif decl or level['decl']:
            cls = auto_persist(*decl)(cls)
        chain.append((cls, list(level['decl'])))
        base = cls
    _CLS[key] = (base, chain)
    return _CLS[key]


def _mk_property(name):
    hidden = '_kept_' + name

    def getter(self):
        return getattr(self, hidden)

    def setter(self, value):
        setattr(self, hidden, value)

    return property(getter, setter)


def _mk_method(m):
    def meth(self):
        return ('meth%d' % m, id(self))

    meth.__name__ = 'meth%d' % m
    return meth


def make_value(owner, desc):
    kind = desc[0]
    if kind == 'plain':
        return _realize(copy.deepcopy(desc[1]))
    if kind == 'method':
        return getattr(owner, desc[1])
    if kind == 'savable':
        cls, _chain = build_class(desc[1])
        return cls(desc[1]['members'])
    if kind == 'future':
        fut = SavableFuture()
        if desc[1] == 'result':
            fut.set_result(copy.deepcopy(desc[2]))
        elif desc[1] == 'result-savable':
            fut.set_result(Box(copy.deepcopy(desc[2])))  # resolved with an object that is itself a Savable
        elif desc[1] == 'exception':
            fut.set_exception(ValueError('fut-exc', repr(desc[2])))
            fut.exception()  # mark retrieved
        elif desc[1] == 'exception-base':
            fut.set_exception(AbortSignal('fut-exc-base'))  # a failure that is no ``Exception`` (an application's abort signal)
            fut.exception()
        elif desc[1] == 'exception-falsy':
            fut.set_exception(FalsyError('fut-exc-falsy'))  # an exception object that is falsy (it has a length, and is empty)
            fut.exception()
        elif desc[1] == 'cancelled':
            fut.cancel()
        return fut
    raise AssertionError(kind)


def _mutate(obj, shape):
    """Mutate every mutable plain member of the original (and of nested Savables) after the save."""
    n = 0
    for name, desc in shape['members'].items():
        val = getattr(obj, name)
        if desc[0] == 'plain':
            n += _mutate_value(val)
        elif desc[0] == 'savable':
            n += _mutate(val, desc[1])
    return n


def _mutate_value(val):
    """In-place change of every mutable container reachable from val (also inside tuples)."""
    n = 0
    if isinstance(val, list):
        for item in list(val):
            n += _mutate_value(item)
        val.append('mutated')
        n += 1
    elif isinstance(val, dict):
        for item in list(val.values()):
            n += _mutate_value(item)
        val['mutated'] = True
        n += 1
    elif isinstance(val, tuple):
        for item in val:
            n += _mutate_value(item)
    elif isinstance(val, plumpy.utils.Frozendict):
        for item in val.values():
            n += _mutate_value(item)
    return n


class FalsyError(Exception):
    def __len__(self):
        return 0


generated.register(FalsyError, 'FalsyError')


class AbortSignal(BaseException):
    pass


generated.register(AbortSignal, 'AbortSignal')


@auto_persist('v')
class Box(Savable):
    """A small Savable used as the result of a future."""

    def __init__(self, v):
        self.v = v


generated.register(Box, 'Box')


def _fstate(fut):
    if not fut.done():
        return ['pending']
    if fut.cancelled():
        return ['cancelled']
    if fut.exception() is not None:
        e = fut.exception()
        return ['exception', type(e).__name__, list(e.args)]
    return ['result', fut.result()]


def compare(orig_desc_shape, new, path, obs, viol, V):
    """Members of the recreated object per kind against the description the original was built from."""
    shape = orig_desc_shape
    for name, desc in shape['members'].items():
        where = '%s.%s' % (path, name)
        kind = desc[0]
        obs['kinds'][kind] = obs['kinds'].get(kind, 0) + 1
        if not hasattr(new, name):
            viol.append(V('member-missing', 'member-missing:%s' % kind, 'declared member %s (%s) missing on the recreated object' % (where, kind)))
            continue
        val = getattr(new, name)
        if kind == 'plain':
            want = _realize(desc[1])
            if '@STATE' in repr(desc[1]) or '@BUNDLE' in repr(desc[1]):
                obs['saved_states_as_data'] = obs.get('saved_states_as_data', 0) + 1
            if val != want or type(val) is not type(want) or (isinstance(want, list) and [type(x) for x in val] != [type(x) for x in want]):
                viol.append(V('plain-differs', 'plain-differs:%s' % type(desc[1]).__name__, 'member %s is %r, saved %r' % (where, val, desc[1])))
        elif kind == 'method':
            if getattr(val, '__self__', None) is not new or val.__name__ != desc[1]:
                viol.append(V('method-not-rebound', 'method-not-rebound', 'member %s is %r, expected %s bound to the new object' % (where, val, desc[1])))
        elif kind == 'savable':
            cls, _c = build_class(desc[1])
            if type(val) is not cls:
                viol.append(V('nested-type', 'nested-type', 'nested %s is a %s, expected %s' % (where, type(val).__name__, cls.__name__)))
            else:
                compare(desc[1], val, where, obs, viol, V)
        elif kind == 'future':
            obs['future_states'][desc[1]] = obs['future_states'].get(desc[1], 0) + 1
            exp = {'pending': ['pending'], 'cancelled': ['cancelled'], 'result': ['result', desc[2]], 'result-savable': None,
                   'exception': ['exception', 'ValueError', ['fut-exc', repr(desc[2])]],
                   'exception-falsy': ['exception', 'FalsyError', ['fut-exc-falsy']], 'exception-base': ['exception', 'AbortSignal', ['fut-exc-base']]}[desc[1]]
            if not isinstance(val, SavableFuture):
                viol.append(V('future-type', 'future-type', 'member %s is %r' % (where, val)))
            elif desc[1] == 'result-savable':
                got = _fstate(val)
                if got[0] != 'result' or type(got[1]) is not Box or got[1].v != desc[2]:
                    viol.append(V('future-state', 'future-state:result-savable', 'future %s, resolved with a Savable holding %r, restored as %r' % (where, desc[2], got)))
            elif _fstate(val) != exp:
                viol.append(V('future-state', 'future-state:%s' % desc[1], 'future %s restored as %r, saved %r' % (where, _fstate(val), exp)))
    for level in shape['levels']:
        for name in level['undeclared']:
            if hasattr(new, name):
                viol.append(V('undeclared-restored', 'undeclared-restored', 'undeclared member %s.%s appeared on the recreated object' % (path, name)))


def norm_state(x):
    if isinstance(x, BaseException):
        return ['EXC', type(x).__name__, norm_state(list(x.args))]
    if isinstance(x, dict):
        return {k: norm_state(v) for k, v in x.items()}
    if isinstance(x, (list, tuple)):
        return [type(x).__name__] + [norm_state(v) for v in x]
    return x


_LOOP = []


def run_case(case):
    V = judges.V
    if not _LOOP:
        _LOOP.append(asyncio.new_event_loop())
        asyncio.set_event_loop(_LOOP[0])
    shape, mode = case['shape'], case['mode']
    cls, chain = build_class(shape)
    obs = {'roundtrips': 0, 'kinds': {}, 'future_states': {}, 'loader': {mode: 1}, 'mutation_probes': 0, 'inherited_checks': 0, 'custom_loads': 0}
    viol = []
    kinds = set(v[0] for v in shape['members'].values())
    # inheritance of declarations: every level's set contains the parents', never the children's
    seen = set()
    hooked = any(level.get('hook') or level.get('manual') for level in shape['levels'])
    obs['hook_declared'] = int(any(level.get('hook') for level in shape['levels']))
    obs['property_backed_members'] = int(any(level.get('prop') and level['decl'] for level in shape['levels']))
    obs['manually_saved'] = int(any(level.get('manual') for level in shape['levels']))
    for c, decl in chain:
        if hooked:
            break  # declarations made from the persist() hook exist only once an instance was saved or loaded: judged below
        seen |= set(decl)
        got = set(c._auto_persist or ())
        obs['inherited_checks'] += 1
        if got != seen:
            viol.append(V('declaration-set', 'declaration-set:%s' % ('lost' if seen - got else 'leaked'),
                          'class %s persists %s, expected %s' % (c.__name__, sorted(got), sorted(seen))))
            break
    loaders.set_object_loader(None)
    CountingLoader.loads = 0
    save_ctx = load_ctx = None
    try:
        if mode == 'global':
            loaders.set_object_loader(CountingLoader())
        elif mode in ('persave', 'persave-globalsub'):
            # (every third per-save loader is an object that is falsy -- it has a length, a cache that is still empty: the loader all the same)
            save_ctx = persistence.LoadSaveContext(loader=FalsyCountingLoader() if mode == 'persave' and case['i'] % 3 == 1 else CountingLoader())
            obs['falsy_per_save_loaders'] = int(mode == 'persave' and case['i'] % 3 == 1)
            if case['i'] % 2:
                # the caller adds something of its own to the context it was given (a copy with more in it): the loader comes along
                save_ctx = save_ctx.copyextend(purpose='checkpoint')
                obs['extended_context_copies'] = 1
        elif mode == 'persave-picky':
            save_ctx = persistence.LoadSaveContext(loader=PickyLoader())
        elif mode == 'persave-anon':
            anon = type('SessionLoader', (CountingLoader,), {'__module__': '__main__'})  # (as if defined in an interactive session)
            save_ctx = persistence.LoadSaveContext(loader=anon())
        if hooked and case['i'] % 2:
            _ancestor_saves(chain, shape, viol, obs, V, 'before')  # instances of the base classes are saved first
        obj = cls(shape['members'])
        try:
            state = obj.save(save_ctx)
        except BaseException as exc:  # noqa: BLE001
            if mode == 'persave-picky' and isinstance(exc, ValueError):
                # the loader refused something the object holds: refusing to save is the answer that stores nothing unloadable
                obs['picky_loader_refused'] = 1
                return _res(case, viol, obs, kinds)
            if mode == 'persave-anon' and isinstance(exc, ValueError):
                # the loader that was used cannot be recorded: refusing to save is the answer that stores nothing wrong
                obs['unrecordable_loader_refused'] = 1
                return _res(case, viol, obs, kinds)
            fs = sorted(set(v[1] for v in _all_members(shape) if v[0] == 'future'))
            viol.append(V('save-raised', 'save-raised:%s:%s' % (type(exc).__name__, '+'.join(fs)), 'save() raised %r (future states present: %s)' % (exc, fs)))
            return _res(case, viol, obs, kinds)
        state_copy = copy.deepcopy(state)
        obs['mutation_probes'] = _mutate(obj, shape)
        if mode == 'unknown':
            bad = copy.deepcopy(state)
            bad[persistence.META][persistence.META__CLASS_NAME] = 'pv.generated:NoSuchClass_%d' % case['i']
            try:
                res = Savable.load(bad)
                viol.append(V('unknown-class-loaded', 'unknown-class-loaded', 'unknown class name produced %r instead of ValueError' % (res,)))
            except ValueError:
                pass
            except BaseException as exc:  # noqa: BLE001
                viol.append(V('unknown-class-error', 'unknown-class-error:%s' % type(exc).__name__, 'unknown class name raised %r instead of ValueError' % (exc,)))
            # ... also when the package that once held the class has a submodule of that name nobody imported (the standard library's
            # `json` package and its `tool`): a module is not the class the state names
            import json as _json
            if 'json.tool' not in sys.modules and not hasattr(_json, 'tool'):
                obs['submodule_name_probes'] = 1
                moved = copy.deepcopy(state)
                moved[persistence.META][persistence.META__CLASS_NAME] = 'json:tool'
                try:
                    res = Savable.load(moved)
                    viol.append(V('unknown-class-loaded', 'unknown-class-loaded:submodule', 'a name that is a submodule, not a class, produced %r instead of ValueError' % (res,)))
                except ValueError:
                    pass
                except BaseException as exc:  # noqa: BLE001
                    viol.append(V('unknown-class-error', 'unknown-class-error:submodule:%s' % type(exc).__name__, 'a name that is only a submodule of the package raised %r '
                                  'instead of ValueError' % (exc,)))
            # ... and so is a recorded *loader* that cannot be found any more: the state says which loader understands its identifiers, and
            # reading them with another one (the default) instead is a guess, not a load
            lost = copy.deepcopy(state)
            Savable.set_custom_meta(lost, persistence.META__OBJECT_LOADER, 'pv.generated:NoSuchLoader_%d' % case['i'])
            obs['lost_loader_probes'] = 1
            try:
                res = Savable.load(lost)
                viol.append(V('lost-loader-ignored', 'lost-loader-ignored', 'the state names a loader class that cannot be found; it was loaded all the same (%r), through another loader' % (res,)))
            except ValueError:
                pass
            except BaseException as exc:  # noqa: BLE001
                viol.append(V('unknown-class-error', 'unknown-class-error:loader:%s' % type(exc).__name__, 'a recorded loader that cannot be found raised %r instead of ValueError' % (exc,)))
            # a class that cannot be found under its own name (here: a class made at run time that bears the name of a registered
            # one) is unknown too: saving or loading it is a ValueError, never an object of the other class
            shadow = type(cls.__name__, (cls,), {'__module__': cls.__module__})
            obs['shadow_class_probes'] = 1
            try:
                res = Savable.load(shadow(shape['members']).save())
                if type(res) is not shadow:
                    viol.append(V('wrong-class-loaded', 'wrong-class-loaded:shadow', 'an object of a class that is not importable under its name %s was saved '
                                  'and came back as an instance of %r (the registered class of that name)' % (cls.__name__, type(res))))
            except ValueError:
                pass
            except BaseException as exc:  # noqa: BLE001
                viol.append(V('unknown-class-error', 'unknown-class-error:shadow:%s' % type(exc).__name__, 'a class not importable under its name raised %r '
                              'instead of ValueError' % (exc,)))
            # a class whose module is there but cannot be imported any more (something it imports was renamed since the state was saved):
            # unknown all the same -- a ValueError to whoever loads
            import tempfile
            moddir = tempfile.mkdtemp(prefix='c19-mod-', dir=os.environ.get('PV_WORK') or None)
            modname = 'pv_c19_broken_%d' % case['i']
            with open(os.path.join(moddir, modname + '.py'), 'w') as fh:
                fh.write('from os import a_name_that_was_renamed_since\n\nclass Thing:\n    pass\n')
            sys.path.insert(0, moddir)
            obs['unimportable_module_probes'] = 1
            try:
                broken = copy.deepcopy(state)
                broken[persistence.META][persistence.META__CLASS_NAME] = '%s:Thing' % modname
                res = Savable.load(broken)
                viol.append(V('unknown-class-loaded', 'unknown-class-loaded:unimportable', 'a class of a module that cannot be imported produced %r instead of ValueError' % (res,)))
            except ValueError:
                pass
            except BaseException as exc:  # noqa: BLE001
                viol.append(V('unknown-class-error', 'unknown-class-error:unimportable:%s' % type(exc).__name__, 'a class whose module fails to import raised %r instead of ValueError' % (exc,)))
            finally:
                sys.path.remove(moddir)
                sys.modules.pop(modname, None)
                shutil.rmtree(moddir, ignore_errors=True)
            # an application's registry loader (a dictionary of names: an unknown name is a KeyError inside it) given in the load
            # context: the unknown class is a ValueError to whoever loads, like with any other loader
            obs['registry_loader_probes'] = 1
            try:
                res = Savable.load(copy.deepcopy(bad), persistence.LoadSaveContext(loader=RegistryLoader()))
                viol.append(V('unknown-class-loaded', 'unknown-class-loaded:registry', 'unknown class name produced %r instead of ValueError' % (res,)))
            except ValueError:
                pass
            except BaseException as exc:  # noqa: BLE001
                viol.append(V('unknown-class-error', 'unknown-class-error:registry:%s' % type(exc).__name__, 'a class name the registry loader does not know raised %r instead of ValueError' % (exc,)))
            # a member holding the bound method of ANOTHER object of the class cannot be "rebound to the new object": it is refused
            # when saving (or comes back bound to that other object's copy), never silently rebound to the loaded object itself
            if chain:
                owner, other = cls(shape['members']), cls(shape['members'])
                mname = next((m for m in dir(type(other)) if m.startswith('meth')), None)
                member = next((n for n, v in shape['members'].items() if v[0] == 'method'), None)
                if mname and member:
                    obs['foreign_method_probes'] = 1
                    setattr(owner, member, getattr(other, mname))
                    try:
                        back = Savable.load(owner.save())
                        got = getattr(back, member, None)
                        if getattr(got, '__self__', None) is back:
                            viol.append(V('foreign-method-rebound', 'foreign-method-rebound', 'member %s held the bound method %s of another object of the class; after '
                                          'the round trip it is bound to the loaded object itself' % (member, mname)))
                    except (TypeError, ValueError):
                        pass
                    except BaseException as exc:  # noqa: BLE001
                        viol.append(V('save-raised', 'save-raised:foreign-method:%s' % type(exc).__name__, 'saving an object holding another object\'s bound method raised %r' % (exc,)))
            # a loader named in the load context that refuses the identifier (it did not make it) is not bypassed: the load fails,
            # the class is not fetched through the default loader behind its back
            obs['refusing_loader_probes'] = 1
            try:
                res = Savable.load(copy.deepcopy(state), persistence.LoadSaveContext(loader=CountingLoader()))
                viol.append(V('refusing-loader-bypassed', 'refusing-loader-bypassed', 'a state written with default identifiers was loaded (%r) although the loader '
                              'given in the load context refuses such identifiers' % (res,)))
            except ValueError:
                pass
            except BaseException as exc:  # noqa: BLE001
                viol.append(V('unknown-class-error', 'unknown-class-error:refusing:%s' % type(exc).__name__, 'a refusing loader made the load raise %r instead of ValueError' % (exc,)))
            # ... and so is a class whose name was bound to another class since it was last saved (module reloaded, definition run
            # again): the objects of the old class are not saved under a name that now means something else
            mod = sys.modules[cls.__module__]
            impostor = type(cls.__name__, (cls,), {'__module__': cls.__module__})
            old_obj = cls(shape['members'])
            setattr(mod, cls.__name__, impostor)
            obs['rebound_name_probes'] = 1
            try:
                res = Savable.load(old_obj.save())
                if type(res) is not cls:
                    viol.append(V('wrong-class-loaded', 'wrong-class-loaded:rebound', 'after the name %s was bound to another class, an object of the old class was saved '
                                  'and came back as an instance of %r' % (cls.__name__, type(res))))
            except ValueError:
                pass
            except BaseException as exc:  # noqa: BLE001
                viol.append(V('unknown-class-error', 'unknown-class-error:rebound:%s' % type(exc).__name__, 'saving an object whose class name was rebound raised %r '
                              'instead of ValueError' % (exc,)))
            finally:
                setattr(mod, cls.__name__, cls)
            return _res(case, viol, obs, kinds)
        if mode == 'persave' and obs['mutation_probes']:
            # the same save context used for a second save of the (meanwhile changed) object: it saves what the object holds now
            obs['second_saves_same_context'] = 1
            try:
                again = obj.save(save_ctx)
                fresh = obj.save(persistence.LoadSaveContext(loader=type(save_ctx.loader)()))
                if norm_state(again) != norm_state(fresh):
                    viol.append(V('stale-second-save', 'stale-second-save', 'a second save through the same save context does not hold the current values: %r, expected %r' % (
                        norm_state(again), norm_state(fresh))))
                if norm_state(state) != norm_state(state_copy):
                    viol.append(V('saved-state-changed', 'saved-state-changed:second-save', 'the state saved first changed when the object was saved again'))
            except BaseException as exc:  # noqa: BLE001
                viol.append(V('save-raised', 'save-raised:second:%s' % type(exc).__name__, 'second save through the same context raised %r' % (exc,)))
        if mode == 'ctxreuse':
            # one caller-owned context (without a loader) reused for several loads while the global loader changes:
            # each load must resolve through the loader in force at that moment and must leave the context alone
            load_ctx = persistence.LoadSaveContext()
            first = Savable.load(copy.deepcopy(state), load_ctx)
            obs['context_left_alone'] = int(load_ctx.loader is None)  # recorded, not judged: only the resolution below is
            loaders.set_object_loader(CountingLoader())
            try:
                obj2 = cls(shape['members'])
                state_custom = obj2.save()
                second = Savable.load(state_custom, load_ctx)
                if type(second) is not cls or type(first) is not cls:
                    viol.append(V('ctxreuse-wrong-class', 'ctxreuse-wrong-class', 'reused context produced %r / %r' % (first, second)))
            except BaseException as exc:  # noqa: BLE001
                viol.append(V('ctxreuse-load-raised', 'ctxreuse-load-raised:%s' % type(exc).__name__,
                              'second load through a reused context raised %r after the global loader changed' % (exc,)))
            loaders.set_object_loader(None)
            try:
                third = Savable.load(copy.deepcopy(state), load_ctx)
                if type(third) is not cls:
                    viol.append(V('ctxreuse-wrong-class', 'ctxreuse-wrong-class', 'reused context produced %r' % (third,)))
            except BaseException as exc:  # noqa: BLE001
                viol.append(V('ctxreuse-load-raised', 'ctxreuse-load-raised:%s' % type(exc).__name__,
                              'third load through a reused context raised %r after the global loader was reset' % (exc,)))
            load_ctx = persistence.LoadSaveContext()
        if mode == 'persave-picky':
            obs['picky_loader_saved'] = 1  # (everything it holds was known to the loader: then it comes back through that loader)
        if mode == 'persave-anon':
            obs['unrecordable_loader_saved'] = 1  # (saved all the same: then it has to come back as what it was, judged below)
            save_ctx = None
        if mode == 'persave-globalsub':
            loaders.set_object_loader(RedirectingLoader())
            obs['global_loader_derived_from_recorded'] = 1
        before_loads = CountingLoader.loads
        try:
            new = Savable.load(state, load_ctx)
        except BaseException as exc:  # noqa: BLE001
            viol.append(V('load-raised', 'load-raised:%s:%s' % (mode, type(exc).__name__), 'load() raised %r with loader mode %s' % (exc, mode)))
            return _res(case, viol, obs, kinds)
        obs['roundtrips'] = 1
        obs['custom_loads'] = CountingLoader.loads - before_loads
        if mode in ('global', 'persave') and CountingLoader.loads - before_loads == 0:
            viol.append(V('custom-loader-unused', 'custom-loader-unused:%s' % mode, 'the custom loader was never consulted on load (mode %s)' % mode))
        if mode == 'persave-globalsub':
            loaders.set_object_loader(None)
        if type(new) is not cls:
            viol.append(V('wrong-class', 'wrong-class%s' % (':' + mode if mode.startswith('persave-') else ''), 'recreated a %s, expected %s (loader mode %s)' % (type(new).__name__, cls.__name__, mode)))
            return _res(case, viol, obs, kinds)
        compare(shape, new, 'obj', obs, viol, V)
        if hooked and mode == 'default':
            # the state is loaded as an object of a class of the same shape none of whose instances was ever saved here (as after a
            # restart of the interpreter): what the persist() hook declares is restored on the load path as well
            twin, _tchain = build_class(shape, twin=True)
            state_twin = copy.deepcopy(state_copy)
            state_twin[persistence.META][persistence.META__CLASS_NAME] = loaders.get_object_loader().identify_object(twin)
            obs['loaded_before_any_save_of_the_class'] = 1
            try:
                other = Savable.load(state_twin)
                if type(other) is not twin:
                    viol.append(V('wrong-class', 'wrong-class:twin', 'recreated a %s, expected %s' % (type(other).__name__, twin.__name__)))
                else:
                    compare(shape, other, 'obj(loaded before any save of its class)', obs, viol, V)
            except BaseException as exc:  # noqa: BLE001
                viol.append(V('load-raised', 'load-raised:twin:%s' % type(exc).__name__, 'loading into a class that was never saved in this interpreter raised %r' % (exc,)))
        if hooked:
            _ancestor_saves(chain, shape, viol, obs, V, 'after')
        # saved state of the copy equals the original's (taken before the mutation)
        try:
            state2 = new.save(save_ctx)
            if norm_state(state2) != norm_state(state_copy):
                viol.append(V('resave-differs', 'resave-differs', 'saved state of the recreated object differs from the original\'s'))
        except BaseException as exc:  # noqa: BLE001
            viol.append(V('resave-raised', 'resave-raised:%s' % type(exc).__name__, 'saving the recreated object raised %r' % (exc,)))
    finally:
        loaders.set_object_loader(None)
    return _res(case, viol, obs, kinds)


def _ancestor_saves(chain, shape, viol, obs, V, when):
    """An instance of every class of the chain saves exactly the members declared up to its level (whatever was saved before)."""
    seen = set()
    for c, decl in chain:
        seen |= set(decl)
        try:
            saved = set(k for k in c(shape['members']).save() if k != persistence.META)
        except BaseException as exc:  # noqa: BLE001
            viol.append(V('ancestor-save-raised', 'ancestor-save-raised:%s:%s' % (type(exc).__name__, when), 'saving an instance of %s (%s the leaf class was '
                          'used) raised %r; it declares %s' % (c.__name__, when, exc, sorted(seen))))
            return
        obs['ancestor_saves'] = obs.get('ancestor_saves', 0) + 1
        if saved != seen:
            viol.append(V('ancestor-save-differs', 'ancestor-save-differs:%s:%s' % ('lost' if seen - saved else 'leaked', when),
                          'an instance of %s saved %s, the members declared up to its level are %s' % (c.__name__, sorted(saved), sorted(seen))))
            return


def _all_members(shape):
    out = []
    for v in shape['members'].values():
        out.append(v)
        if v[0] == 'savable':
            out.extend(_all_members(v[1]))
    return out


def _res(case, viol, obs, kinds):
    res = {'viol': judges._dedupe(viol), 'obs': obs, 'key': case, 'nontrivial': len(kinds) >= 2}
    res['sample'] = {'levels': case['shape']['levels'], 'members': {k: v[:2] if v[0] != 'savable' else ['savable', '...'] for k, v in case['shape']['members'].items()},
                     'loader_mode': case['mode']}
    return res
