"""C14 -- persisters are a snapshot store keyed by (pid, tag), equivalent to each other."""
import copy
import os
import shutil
import tempfile
import threading
import uuid
from collections.abc import Mapping

import plumpy
from plumpy import persistence
from plumpy import process_states as ps

from pv import generated, judges, plans, programs
from pv.driver import BudgetExceeded, Driver

ID = 'C14'
TITLE = 'persisters: snapshot store keyed by (pid, tag)'
ANCHORS = ['plumpy.persistence:InMemoryPersister.save_checkpoint', 'plumpy.persistence:InMemoryPersister.load_checkpoint', 'plumpy.persistence:PicklePersister.save_checkpoint', 'plumpy.persistence:PicklePersister.load_checkpoint', 'plumpy.persistence:PicklePersister.get_checkpoints', 'plumpy.persistence:PicklePersister.delete_checkpoint', 'plumpy.persistence:PicklePersister.delete_process_checkpoints', 'plumpy.persistence:InMemoryPersister.delete_process_checkpoints']
LEVEL = 'exploration'
TECHNIQUE = ('runtime monitoring of operation histories against an executable dictionary model: the same history is applied to InMemoryPersister, '
             'PicklePersister and a dict {(pid, tag): snapshot at save time}; every call result / exception and every loaded bundle is compared')
RULE = ('histories of 6-16 (thorough 8-25) operations from {save, load, list all, list pid, delete, delete all of pid, progress (step a live process '
        'so that state/outputs/ctx change), load-and-run (run the loaded copy to completion)} over 3 live processes with waits, outputs and a '
        'mutable context, pids of one kind per history {ints 1/10/12, UUIDs, strings job/job2/a}, tags {None, ...}; quick 900 histories, '
        'thorough 9000; distinct by history; non-trivial when a load followed a save and progress of the same key')
RULE += ('; also: saves that fail half way (unpicklable value), mutable inputs changed in place, falsy tags')
ASSUMPTIONS = ['exception classes are not compared (KeyError vs FileNotFoundError are both "raises")', 'listings compared as sets',
               'bundles compared structurally (exceptions by type and args)']
REQUIRED = ['pruning_saves', 'saves_read_back_inside_the_loop', 'saves_compared_with_live', 'failed_saves', 'failed_overwrites', 'ops/save', 'ops/load', 'ops/list', 'ops/listp', 'ops/del', 'ops/delp', 'ops/progress', 'ops/loadrun', 'loads_compared', 'loads_after_progress',
            'absent_loads', 'overwrites', 'pidkind/int', 'pidkind/uuid', 'pidkind/str', 'pidkind/glob', 'pidkind/suffix', 'pidkind/punct']
BOUNDS = {'quick': '900 histories of 6-16 ops', 'thorough': '9000 histories of 8-25 ops'}


@plumpy.auto_persist()
class CtxProg(plumpy.ContextMixin, programs.ProgBase):
    """ProgBase program whose steps also grow a mutable context (list + counter) and emit an output."""

    _pruning = None

    def save_instance_state(self, out_state, save_context):
        # a process that keeps only its latest checkpoint: while it is being saved it removes what the store holds for it so far
        # (the store is called back from inside its own save_checkpoint)
        if self._pruning is not None:
            self._pruning.delete_process_checkpoints(self.pid)
        super().save_instance_state(out_state, save_context)

    def _enter(self, i, args, kwargs):
        super()._enter(i, args, kwargs)
        self.ctx.setdefault('items', []).append('step-%d' % i)
        self.ctx.count = self.ctx.get('count', 0) + 1
        self.ctx.setdefault('nested', {'d': []})['d'].append(i)
        self.out('o%d' % i, {'v': [i]})
        if self.inputs is not None and 'todo' in self.inputs:
            # in-place changes of (mutable) input values: a checkpoint written earlier must not follow them
            self.inputs['todo'].append('done-%d' % i)
            self.inputs['cfg']['flags'].append(i)


generated.register(CtxProg, 'CtxProg')
S = programs.step
PROGRAM = {'steps': [S(['wait', 'w0', None], sync=True), S(['cont', [[1, 2]], {}], yields=1), S(['wait', 'w1', {'d': 1}], sync=True),
                     S(['value', 9], sync=True)]}
# ('glob': separator-free strings that contain characters with a meaning in file-name patterns)
# ('suffix': separator-free strings made of the letters of the persister's file suffix; one of the UUIDs ends in such a letter too)
PIDS = {'int': [1, 10, 12], 'uuid': [uuid.UUID(int=7), uuid.UUID(int=8), uuid.UUID(int=12)], 'str': ['job', 'job2', 'a'], 'glob': ['calc[1]', 'calc1', 'job-[a-z]*'],
        'suffix': ['alice', 'pickle', 'kelp'],
        # ('punct': ids and tags that differ only in a blank or a punctuation mark -- different keys all the same)
        'punct': ['run 1', 'run_1', 'run+1']}
TAGS = {'int': [None, 1, 2, 0], 'uuid': [None, uuid.UUID(int=77)], 'str': [None, 't', 'tt', 'job', ''], 'glob': [None, 't[0]', '?', 't0'], 'suffix': [None, 'e', 'lick', 't'], 'punct': [None, 'step 1', 'step#1', 'step_1']}
OPS = ['save'] * 5 + ['load'] * 5 + ['progress'] * 4 + ['list', 'listp', 'del', 'delp', 'loadrun', 'loadrun', 'badsave', 'prunesave']


def gen_cases(tier, seed):
    rng = plans.rng_for(seed, 'c14')
    n, lo, hi = (900, 6, 16) if tier == 'quick' else (9000, 8, 25)
    for h in range(n):
        kind = ['int', 'uuid', 'str', 'glob', 'suffix', 'punct'][h % 6]
        hist = []
        keys = set()
        for _ in range(rng.randint(lo, hi)):
            op = rng.choice(OPS)
            i, t = rng.randrange(3), rng.randrange(len(TAGS[kind]))
            if op in ('load', 'loadrun', 'del') and keys and rng.random() < 0.85:
                i, t = rng.choice(sorted(keys))  # mostly aim at keys that exist
            if op == 'prunesave':
                keys = {k for k in keys if k[0] != i} | {(i, t)}
            if op == 'save':
                keys.add((i, t))
            elif op == 'del':
                keys.discard((i, t))
            elif op == 'delp':
                keys = {k for k in keys if k[0] != i}
            hist.append([op, i, t])
        yield {'kind': kind, 'history': hist, 'inside_loop': h % 3 == 2}


def norm(x):
    if isinstance(x, BaseException):
        return ['EXC', type(x).__name__, norm(list(x.args))]
    if isinstance(x, Mapping):
        return {repr(k) if not isinstance(k, str) else k: norm(v) for k, v in x.items()}
    if isinstance(x, (list, tuple, set, frozenset)):
        items = [norm(v) for v in x]
        return [type(x).__name__] + (sorted(items, key=repr) if isinstance(x, (set, frozenset)) else items)
    if isinstance(x, (int, float, str, bool)) or x is None:
        return x
    if isinstance(x, uuid.UUID):
        return 'uuid:%s' % x
    return repr(x)


def run_case(case):
    V = judges.V
    kind, history = case['kind'], case['history']
    base = os.environ.get('PV_WORK') or None
    workdir = tempfile.mkdtemp(prefix='c14-[a]?-', dir=base)
    obs = {'ops': {}, 'loads_compared': 0, 'loads_after_progress': 0, 'absent_loads': 0, 'overwrites': 0, 'pidkind': {kind: 1}}
    viol = []
    cls = programs.program_class(PROGRAM, CtxProg)
    try:
        with Driver(20000) as drv:
            procs = [cls(inputs={'todo': [1, 2, 3], 'cfg': {'flags': ['new']}} if i != 1 else None, pid=PIDS[kind][i], loop=drv.loop) for i in range(3)]
            tasks = {}
            mem = persistence.InMemoryPersister()
            pk = persistence.PicklePersister(workdir)
            model = {}
            progressed_since_save = {}
            done_ops = []

            def both(fn):
                out = []
                for p in (mem, pk):
                    try:
                        out.append(['ok', fn(p)])
                    except Exception as exc:  # noqa: BLE001
                        out.append(['raise', type(exc).__name__])
                return out

            def progress(proc):
                if proc.has_terminated():
                    return
                if proc.pid not in tasks:
                    tasks[proc.pid] = drv.loop.create_task(proc.step_until_terminated())
                drv.pump()
                if proc.state == ps.ProcessState.WAITING:
                    proc.resume('rv')
                    drv.pump()

            for op, i, t in history:
                proc = procs[i]
                pid = proc.pid
                tag = TAGS[kind][t]
                key = (pid, tag)
                obs['ops'][op] = obs['ops'].get(op, 0) + 1
                done_ops.append(op)
                ctx = '%s(pid=%r, tag=%r) after %s' % (op, pid, tag, done_ops[:-1])
                if op == 'save':
                    snap = norm(copy.deepcopy(dict(plumpy.Bundle(proc))))
                    if case.get('inside_loop'):
                        # the save is made by code running inside the event loop (a step, a callback) which reads its own write
                        # back before it returns to the loop: stored means stored, not scheduled to be stored
                        def save_and_read_back(p):
                            async def inside():
                                p.save_checkpoint(proc, tag)
                                listed = [(c.pid, c.tag) for c in p.get_checkpoints()]
                                return [(pid, tag) in listed, norm(dict(p.load_checkpoint(pid, tag)))]
                            return drv.loop.run_until_complete(inside())

                        r = both(save_and_read_back)
                        obs['saves_read_back_inside_the_loop'] = obs.get('saves_read_back_inside_the_loop', 0) + 1
                        for which, rr in zip(('mem', 'pickle'), r):
                            if rr[0] == 'ok' and (rr[1][0] is not True or rr[1][1] != snap):
                                viol.append(V('save-not-visible', 'save-not-visible:%s' % which, '%s: made inside the running loop and read back at once: listed=%s, the loaded '
                                              'snapshot %s the state saved' % (ctx, rr[1][0], 'is' if rr[1][1] == snap else 'is NOT')))
                    else:
                        r = both(lambda p: p.save_checkpoint(proc, tag))
                    if r[0][0] != 'ok' or r[1][0] != 'ok':
                        viol.append(V('save-raised', 'save-raised:%s' % ('mem' if r[0][0] != 'ok' else 'pickle'), '%s: %s' % (ctx, r)))
                        break
                    if key in model:
                        obs['overwrites'] += 1
                    # the snapshot is the process as it is *now* (read through the accessors, independently of the bundle)
                    live = {'INPUTS_RAW': proc.raw_inputs, 'INPUTS_PARSED': proc.inputs, 'OUTPUTS': proc.outputs}
                    for bkey, value in live.items():
                        if bkey in snap and value is not None and snap[bkey] != norm(value):
                            viol.append(V('save-stale', 'save-stale:%s' % bkey, '%s: the saved state holds %s %r, the process has %r' % (ctx, bkey, snap[bkey], norm(value))))
                    obs['saves_compared_with_live'] = obs.get('saves_compared_with_live', 0) + 1
                    model[key] = snap
                    progressed_since_save[key] = False
                elif op == 'prunesave':
                    snap = norm(copy.deepcopy(dict(plumpy.Bundle(proc))))

                    def pruning_save(p):
                        proc._pruning = p
                        try:
                            return p.save_checkpoint(proc, tag)
                        finally:
                            proc._pruning = None

                    r = both(pruning_save)
                    obs['pruning_saves'] = obs.get('pruning_saves', 0) + 1
                    if r[0][0] != 'ok' or r[1][0] != 'ok':
                        viol.append(V('save-raised', 'save-raised:pruning:%s' % ('mem' if r[0][0] != 'ok' else 'pickle'), '%s: %s' % (ctx, r)))
                        break
                    for k in [k for k in model if k[0] == pid]:
                        del model[k]
                        progressed_since_save.pop(k, None)
                    model[key] = snap
                    progressed_since_save[key] = False
                elif op == 'badsave':
                    # fault: a save that fails (the process holds something that can be neither copied nor pickled) stores nothing
                    # and leaves whatever was stored under that key as it was
                    proc.ctx.unsaveable = threading.Lock()
                    try:
                        r = both(lambda p: p.save_checkpoint(proc, tag))
                    finally:
                        del proc.ctx.unsaveable
                    if r[0][0] != 'raise' or r[1][0] != 'raise':
                        viol.append(V('failed-save-accepted', 'failed-save-accepted', '%s: saving an unsaveable process answered %s' % (ctx, r)))
                    obs['failed_saves'] = obs.get('failed_saves', 0) + 1
                    if key in model:
                        obs['failed_overwrites'] = obs.get('failed_overwrites', 0) + 1
                elif op == 'load':
                    def load(p):
                        # (what comes back is looked at before it is read as a mapping: `None` for an absent key is an answer, not a refusal)
                        got = p.load_checkpoint(pid, tag)
                        return norm(dict(got)) if isinstance(got, Mapping) else ['NOT-A-BUNDLE', repr(got)]

                    r = both(load)
                    exp = model.get(key)
                    if exp is None:
                        obs['absent_loads'] += 1
                        for name, x in zip(('mem', 'pickle'), r):
                            if x[0] != 'raise':
                                viol.append(V('absent-load-returned', 'absent-load-returned:%s' % name, '%s: loading an absent key returned a bundle' % ctx))
                    else:
                        obs['loads_compared'] += 1
                        obs['present_loads'] = obs.get('present_loads', 0) + 1
                        if progressed_since_save.get(key):
                            obs['loads_after_progress'] += 1
                        for name, x in zip(('mem', 'pickle'), r):
                            if x[0] != 'ok':
                                viol.append(V('load-raised', 'load-raised:%s' % name, '%s: %s' % (ctx, x)))
                            elif x[1] != exp:
                                what = _diffkeys(x[1], exp)
                                viol.append(V('load-differs', 'load-differs:%s:%s:%s' % (name, what, 'after-loadrun' if 'loadrun' in done_ops else ('after-progress' if progressed_since_save.get(key) else 'fresh')),
                                              '%s: %s persister returned a bundle differing from the snapshot taken at save time in %s' % (ctx, name, what)))
                elif op in ('list', 'listp'):
                    if op == 'list':
                        r = both(lambda p: sorted(map(repr, p.get_checkpoints())))
                        exp = sorted(repr(persistence.PersistedCheckpoint(a, b)) for a, b in model)
                    else:
                        r = both(lambda p: sorted(map(repr, p.get_process_checkpoints(pid))))
                        exp = sorted(repr(persistence.PersistedCheckpoint(a, b)) for a, b in model if a == pid)
                    for name, x in zip(('mem', 'pickle'), r):
                        if x != ['ok', exp]:
                            viol.append(V('listing-differs', 'listing-differs:%s:%s' % (op, name), '%s: %s lists %s, stored keys are %s' % (ctx, name, x, exp)))
                elif op == 'del':
                    r = both(lambda p: p.delete_checkpoint(pid, tag))
                    model.pop(key, None)
                    if any(x[0] != 'ok' for x in r):
                        viol.append(V('delete-raised', 'delete-raised', '%s: %s' % (ctx, r)))
                elif op == 'delp':
                    r = both(lambda p: p.delete_process_checkpoints(pid))
                    for k in [k for k in model if k[0] == pid]:
                        model.pop(k)
                    if any(x[0] != 'ok' for x in r):
                        viol.append(V('delete-raised', 'delete-raised', '%s: %s' % (ctx, r)))
                elif op == 'progress':
                    progress(proc)
                    for k in model:
                        if k[0] == pid:
                            progressed_since_save[k] = True
                elif op == 'loadrun':
                    if key in model:
                        for name, pers in (('mem', mem), ('pickle', pk)):
                            try:
                                bundle = pers.load_checkpoint(pid, tag)
                                clone = bundle.unbundle(plumpy.LoadSaveContext(loop=drv.loop))
                                t2 = drv.loop.create_task(clone.step_until_terminated())
                                for _ in range(6):
                                    drv.pump()
                                    if clone.has_terminated():
                                        break
                                    if clone.state == ps.ProcessState.WAITING:
                                        clone.resume('rv2')
                                if not t2.done():
                                    t2.cancel()
                            except Exception as exc:  # noqa: BLE001
                                viol.append(V('loadrun-raised', 'loadrun-raised:%s:%s' % (name, type(exc).__name__), '%s: %r' % (ctx, exc)))
                if viol:
                    break
            # final sweep: every stored key still loads as its snapshot, in both persisters
            if not viol:
                for key, exp in sorted(model.items(), key=repr):
                    r = both(lambda p: norm(dict(p.load_checkpoint(*key))))
                    obs['loads_compared'] += 1
                    for name, x in zip(('mem', 'pickle'), r):
                        if x != ['ok', exp]:
                            what = _diffkeys(x[1], exp) if x[0] == 'ok' else x[1]
                            viol.append(V('load-differs', 'load-differs:%s:%s:%s' % (name, what, 'after-loadrun' if 'loadrun' in done_ops else 'final'),
                                          'final load of %r from %s differs from the snapshot taken at save time in %s (history %s)' % (key, name, what, done_ops)))
                            break
    except BudgetExceeded:
        return {'viol': [], 'obs': obs, 'inconclusive': 'budget', 'key': case, 'nontrivial': False}
    finally:
        shutil.rmtree(workdir, ignore_errors=True)
    res = {'viol': judges._dedupe(viol), 'obs': obs, 'key': case, 'nontrivial': obs.get('present_loads', 0) > 0}
    res['sample'] = {'pid_kind': kind, 'history': [[op, repr(PIDS[kind][i]), repr(TAGS[kind][t])] for op, i, t in history]}
    return res


def _diffkeys(a, b):
    if not isinstance(a, dict) or not isinstance(b, dict):
        return 'value'
    keys = sorted(k for k in set(a) | set(b) if a.get(k) != b.get(k))
    return '+'.join(keys[:3])
