"""C03 -- a failure in user code ends the process EXCEPTED, never half-transitioned."""
import plumpy

from pv import generated, judges, lifecycle, plans, programs
from pv.programs import ProgError

ID = 'C03'
TITLE = 'user-code failure => EXCEPTED, never half-transitioned'
ANCHORS = ['plumpy.base.state_machine:StateMachine.transition_to', 'plumpy.processes:Process.transition_failed', 'plumpy.process_states:Running.execute', 'plumpy.events:ProcessCallback.run', 'plumpy.processes:Process.callback_excepted', 'plumpy.event_helper:EventHelper.fire_event']
LEVEL = 'fault_enumeration'
TECHNIQUE = ('fault injection with runtime monitoring: one unique exception raised at every (hook or user function) x occurrence x before/after-super '
             'position found by a discovery run of each (program, scenario); outcome, loop exception handler and stepping task observed')
RULE = ('for each (program, scenario in plain / pause+play / kill / failing / output-emitting): a discovery run counts the occurrences of every '
        'fault point (step functions, call_soon callbacks, output hooks, all state entry/exit/termination hooks, pause/play hooks, the nine '
        'listener methods, construction); then every (point, occurrence, before|after super) gets one run with a unique exception injected '
        'there -- complete over that finite set; distinct by (program, scenario, point, occurrence, position); non-trivial when the fault fired')
RULE += ('; also: persistent faults in the state-exit hooks, the generic on_entering / on_entered / on_exiting hooks and set_status() as fault points, scenarios failing the process from outside or pausing it by message, unprintable exceptions, listener faults inside a call back into the process, outline workchain steps and predicates as fault points')
ASSUMPTIONS = ['one injected fault per run', 'only the identity of the injected exception is judged; "exception never retrieved" reports for '
               'futures replaced on the EXCEPTED path are diagnostics']
REQUIRED = ['self_cancelling_callbacks', 'early_future_checks', 'class/outline', 'pp_pause_siblings', 'pp_kill_siblings', 'pp_completed', 'late_callbacks', 'fired', 'class/user', 'class/listener', 'class/pauseplay', 'class/construct', 'class/hook']
EXHAUSTIVE = {'quick': True, 'thorough': True}
BOUNDS = {'quick': '4 programs x 5 scenarios + 2 outlines x 3 scripts, every fault point/occurrence/position', 'thorough': '+ 12 random programs'}

HOOKS = ['on_run', 'on_running', 'on_exit_running', 'on_wait', 'on_waiting', 'on_exit_waiting', 'on_finish', 'on_finished', 'on_kill',
         'on_killed', 'on_except', 'on_excepted', 'on_terminated', 'on_close', 'on_output_emitting', 'on_output_emitted']
PP_HOOKS = ['on_pausing', 'on_paused', 'on_playing']
CONSTRUCT = ['__init__', 'init', 'on_create']
LISTENER = ['on_process_running', 'on_process_waiting', 'on_process_paused', 'on_process_played', 'on_output_emitted',
            'on_process_finished', 'on_process_excepted', 'on_process_killed']

#: (point, pos, occurrence) to fail at, or None (discovery); counts of the current run
FAULT = None
COUNTS = {}
FIRED = []
SELF_CANCELLED = []


UnprintableError = programs.UnprintableError


def fault_point(name, pos, proc=None):
    key = '%s/%s' % (name, pos)
    n = COUNTS.get(key, 0) + 1
    COUNTS[key] = n
    # position 'before+' / 'after+': a hook that is simply broken -- it raises at that occurrence and at every later call
    if FAULT is not None and FAULT[0] == name and (
            (FAULT[1] == pos and FAULT[2] == n) or (FAULT[1] == pos + '+' and n >= FAULT[2])):
        # (every other listener fault is an exception that cannot even be turned into text: reporting it must not become a second fault)
        unprintable = (name.startswith('listener.') or name in ('step', 'callback')) and (n % 2 == 0 or name.endswith(('_finished', '_excepted', '_killed')))
        # ... and every third of the others is a falsy object (an exception class with __len__, empty): it is an exception all the same
        falsy = not unprintable and (len(key) + n) % 3 == 0
        exc = (UnprintableError if unprintable else ProgError)('X:%s%s' % (key, ':falsy' if falsy else ''))
        exc.ctx_hook = next((h for h in reversed(HOOK_STACK) if h in PP_HOOKS), HOOK_STACK[-1] if HOOK_STACK else None)
        exc.proc_terminated = proc.has_terminated() if proc is not None and getattr(proc, '_state', None) is not None else None
        FIRED.append(exc)
        raise exc


HOOK_STACK = []  # names of the wrapped hooks currently executing (a fault in a helper such as set_status is judged by where it is called from)


def _wrap(name):
    def hook(self, *args, **kwargs):
        fault_point(name, 'before', self)
        HOOK_STACK.append(name)
        try:
            getattr(super(FaultProg, self), name)(*args, **kwargs)
        finally:
            HOOK_STACK.pop()
        fault_point(name, 'after', self)

    hook.__name__ = name
    return hook


class FaultProg(programs.ProgBase):
    def __init__(self, *args, **kwargs):
        fault_point('__init__', 'before')
        super().__init__(*args, **kwargs)
        fault_point('__init__', 'after')

    def save_instance_state(self, out_state, save_context):
        pending, self._fail_save = getattr(self, '_fail_save', None), None
        if pending is not None:
            raise pending
        super().save_instance_state(out_state, save_context)

    def set_status(self, status):
        # an overridden public helper that the pause / play hooks (and the steps) call
        fault_point('set_status', 'in', self)
        super().set_status(status)

    def _enter(self, i, args, kwargs):
        super()._enter(i, args, kwargs)
        fault_point('step', 'entry', self)

    def _leave(self, i):
        fault_point('step', 'exit', self)
        return super()._leave(i)


GENERIC = ['on_entering', 'on_entered', 'on_exiting']  # the state-event hooks behind all the others (first occurrence: entering CREATED)
for _h in HOOKS + PP_HOOKS + ['init', 'on_create'] + GENERIC:
    setattr(FaultProg, _h, _wrap(_h))
generated.register(FaultProg, 'FaultProg')


class FaultProgReq(FaultProg):
    """The same with a required output that the programs do not emit: the first entry into FINISHED is refused and made again,
    unsuccessfully (every hook of the finishing transition runs twice: a fault in the second round is a fault like any other)."""

    @classmethod
    def define(cls, spec):
        super().define(spec)
        spec.output('req', valid_type=int, required=True)


generated.register(FaultProgReq, 'FaultProgReq')


class FaultListener(lifecycle.RecListener):
    pass


def _lwrap(name):
    def method(self, *args, **kwargs):
        getattr(super(FaultListener, self), name)(*args, **kwargs)
        try:
            fault_point('listener.' + name, 'in')
        except ProgError as exc:
            if COUNTS.get('listener.%s/in' % name, 0) % 3 == 0:
                # the listener's fault happens inside a call it makes back into the process (it tries to checkpoint the process
                # and the process's own save_instance_state override fails before reaching the base class)
                proc = args[0]
                proc._fail_save = exc
                plumpy.Bundle(proc)
            raise

    method.__name__ = name
    return method


for _m in LISTENER:
    setattr(FaultListener, _m, _lwrap(_m))


def _cb_factory(proc, mode, tag):
    def callback():
        proc._t('cb', tag, True)
        if COUNTS.get('callback/in', 0) % 2 == 1 and getattr(callback, 'handle', None) is not None:
            # a one-shot callback that takes its own handle off before it does its work (every second one): it is running all the
            # same, and what it raises is a failure of the process like that of any other callback
            callback.handle.cancel()
            SELF_CANCELLED.append(tag)
        fault_point('callback', 'in', proc)

    callback.__name__ = 'cb_%s' % tag
    return callback


class FaultRun(lifecycle.Run):
    def _make_class(self):
        return programs.program_class(self.case['program'], FaultProgReq if self.case['program'].get('req_output') else FaultProg)

    def _release_for_collection(self):
        # the injected exception is kept for identity checks; its traceback holds the frames (and through them the task) of the
        # callback it was raised in, which would delay the "exception never retrieved" report of that task beyond the run
        for exc in FIRED:
            exc.__traceback__ = None

    def execute(self):
        global COUNTS
        COUNTS = {}
        del FIRED[:]
        del SELF_CANCELLED[:]
        orig_cb = programs._make_cb
        orig_listener = lifecycle.RecListener
        programs._make_cb = _cb_factory
        lifecycle.RecListener = FaultListener
        try:
            return super().execute()
        finally:
            programs._make_cb = orig_cb
            lifecycle.RecListener = orig_listener


def _scenarios(prog):
    n = plans.slots_of(prog)
    mid = max(1, n // 2)
    return {
        'plain': [],
        'pauseplay': [{'at': mid, 'act': ['pause', 'pp']}, {'at': 'q', 'act': ['play']}],
        'pause0': [{'at': 0, 'act': ['pause', 'p0']}, {'at': 'q', 'act': ['play']}],
        'kill': [{'at': mid, 'act': ['kill', 'kk']}],
        'killpaused': [{'at': 0, 'act': ['pause', 'p0']}, {'at': 'q', 'act': ['kill', 'kq']}],
        # the process is failed from outside (in the middle of a step / at the first quiescent point, e.g. while it waits): a
        # fault in a hook of that transition must still end it EXCEPTED, closed, with the stepping returned
        # the pause arrives as a message in the middle of a step (its sender holds the reply future)
        'rpcpause': [{'at': mid, 'act': ['rpc_pause', 'rp']}, {'at': 'q', 'act': ['play']}],
        # the instance is lost at the first quiescent point and the process goes on in one recreated from a checkpoint: a fault in
        # the hooks of what follows (the first transition of the new instance included) is handled like in any other
        'reinc': [{'at': 'q', 'act': ['reincarnate']}],
        'reinckill': [{'at': 'q', 'act': ['reincarnate']}, {'at': 'q', 'act': ['kill', 'rk']}],
        # ... and the recreated instance is failed from outside where it stands (its first transition is the one out of the state
        # it was recreated in, and a hook of exactly that transition is the faulty one)
        'reincfail': [{'at': 'q', 'act': ['reincarnate']}, {'at': 'q', 'act': ['fail', 'rf']}],
        'fail': [{'at': mid, 'act': ['fail', 'ff']}],
        'failq': [{'at': 'q', 'act': ['fail', 'fq']}],
    }


def _programs(tier, seed):
    S = programs.step
    progs = {
        'rich': {'steps': [S(['cont', [1], {}], yields=1, fx=[(0, ['out', 'o1', 1]), (1, ['soon', 'ok', 'c1'])]),
                           S(['wait', 'w', None], sync=True, fx=[(0, ['out', 'ns.o2', 2])]),
                           S(['value', 5], yields=2, fx=[(1, ['soon', 'ok', 'c2'])])]},
        'failing': {'steps': [S(['cont', [], {}], yields=1, fx=[(0, ['out', 'o1', 1])]), S(['raise', 'prog-fails'], yields=1)]},
        'killcmd': {'steps': [S(['wait', 'w', None], yields=1), S(['kill', 'prog-kill'], sync=True)]},
        'unsucc': {'steps': [S(['unsucc', 2], sync=True, fx=[(0, ['soon', 'ok', 'c0'])])]},
        'reqmissing': {'steps': [S(['cont', [], {}], yields=1), S(['value', 3], sync=True)], 'req_output': True},
    }
    if tier == 'thorough':
        rng = plans.rng_for(seed, 'c03')
        for k in range(12):
            progs['rnd%d' % k] = programs.random_program(rng, 4)
    return progs


class FaultOutlineMixin:
    """Outline WorkChain whose step / predicate functions are fault points (one fault point per call)."""

    def _call(self, kind, name):
        fault_point('outline.%s' % ('step' if kind == 's' else 'predicate'), 'in', self)
        return super()._call(kind, name)


_OUTLINE_CLS = {}


def _outline_class(ast_):
    from pv import outlines
    key = repr(ast_)
    if key not in _OUTLINE_CLS:
        base = outlines.outline_class(ast_)
        cls = type('Fault' + base.__name__, (FaultOutlineMixin, base), {})
        generated.register(cls)
        _OUTLINE_CLS[key] = cls
    return _OUTLINE_CLS[key]


OUTLINES = [
    [['step', 's0'], ['if', [['p0', [['step', 's1'], ['step', 's2']]], ['p1', [['step', 's3']]]], [['step', 's4']]], ['while', 'p2', [['step', 's5']]], ['step', 's6']],
    [['while', 'p0', [['if', [['p1', [['step', 's0']]]], None], ['step', 's1']]], ['ret', 3]],
]
OUTLINE_SCRIPTS = [([True, False, True, False], []), ([False, True, True, True, False], []), ([False, False, False], [])]


def _run_outline(ast_, preds, rets):
    from pv.driver import BudgetExceeded, Driver
    global COUNTS
    COUNTS = {}
    del FIRED[:]
    cls = _outline_class(ast_)
    with Driver(4000) as drv:
        wc = cls(inputs={'preds': list(preds), 'rets': list(rets)}, loop=drv.loop)
        task = drv.loop.create_task(wc.step_until_terminated())
        try:
            drv.pump()
        except BudgetExceeded:
            return None
        return {'state': wc.state.value, 'exception': wc.exception(), 'future': lifecycle.describe_future(wc.future()), 'closed': wc._closed,
                'task': lifecycle.Run._task_info(task), 'loop_excs': drv.error_exceptions(), 'trace': list(wc.ctx.get('tr', []))}


def gen_cases(tier, seed):
    global FAULT
    cases = []
    for oi, ast_ in enumerate(OUTLINES):
        for si, (preds, rets) in enumerate(OUTLINE_SCRIPTS):
            FAULT = None
            if _run_outline(ast_, preds, rets) is None:
                continue
            for key, n in sorted(dict(COUNTS).items()):
                point, pos = key.rsplit('/', 1)
                for occ in range(1, n + 1):
                    cases.append({'kind': 'outline', 'name': 'outline%d' % oi, 'scenario': 'script%d' % si, 'ast': ast_, 'preds': preds, 'rets': rets,
                                  'fault': [point, pos, occ]})
    for name, prog in sorted(_programs(tier, seed).items()):
        scenarios = dict(_scenarios(prog))
        if any(fx[0] == 'soon' for st in prog['steps'] for _pos, fx in st.get('fx', ())):
            # a kill requested at every slot (only recorded while a step is in flight, carried out later): a scheduled callback that
            # fails inside that window still ends the process EXCEPTED with its exception
            for s0 in range(0, plans.slots_of(prog) + 1):
                scenarios['kill@%d' % s0] = [{'at': s0, 'act': ['kill', 'kw%d' % s0]}]
        for scen, plan in sorted(scenarios.items()):
            base = {'name': name, 'scenario': scen, 'program': prog, 'plan': plan, 'drain': True, 'listener': True, 'collect_dead_tasks': True}
            FAULT = None
            try:
                FaultRun(dict(base)).execute()
            except BaseException:  # noqa: BLE001
                continue
            counts = dict(COUNTS)
            cases.append(dict(base, fault=None))
            for key, n in sorted(counts.items()):
                point, pos = key.rsplit('/', 1)
                for occ in range(1, n + 1):
                    if scen.startswith('kill@') and point != 'callback':
                        continue  # (these scenarios are about the callbacks only; the hooks are covered by 'kill')
                    if scen.startswith('reinc') and point == 'init' and occ > 1:
                        continue  # (init() of the recreated instance: the load raises to whoever loads, i.e. to the harness)
                    cases.append(dict(base, fault=[point, pos, occ]))
                    if point.startswith('on_exit_'):
                        cases.append(dict(base, fault=[point, pos + '+', occ]))
    return cases


def _classify(point, occ=None):
    if point.startswith('listener.'):
        return 'listener'
    if point in PP_HOOKS:
        return 'pauseplay'
    if point in CONSTRUCT:
        return 'construct'
    if point in ('on_entering', 'on_entered') and occ == 1:
        return 'construct'  # the transition into CREATED is part of the constructor call
    if point in ('step', 'callback', 'on_output_emitting', 'on_output_emitted'):
        return 'user'
    return 'hook'


_REF = {}


def _reference(case):
    import json
    key = json.dumps([case['program'], case['plan']], sort_keys=True)
    if key not in _REF:
        global FAULT
        FAULT = None
        _REF[key] = FaultRun(dict(case, fault=None)).execute().record()
    return _REF[key]


def _summary(rec):
    fin = rec['final']
    return {'state': fin['state'], 'result': fin['result'], 'outputs': fin['outputs'], 'exception': fin['exception'],
            'steps': [[e[2], e[5]] for e in rec['events'] if e[0] == 'trace' and e[1] == 'enter']}


def run_outline_case(case):
    global FAULT
    V = judges.V
    FAULT = tuple(case['fault'])
    try:
        r = _run_outline(case['ast'], case['preds'], case['rets'])
    finally:
        FAULT = None
    fired = list(FIRED)
    obs = {'fired': int(bool(fired)), 'class': {'outline': int(bool(fired))}, 'points': {}, 'loop_contexts': 0}
    if r is None or not fired:
        return {'viol': [], 'obs': obs, 'inconclusive': 'fault-not-reached', 'key': case, 'nontrivial': False}
    X = fired[0]
    where = '%s/%s' % (case['fault'][0], case['fault'][1])
    obs['points'][where] = 1
    sig_tail = '%s:%s' % (where, 'outline')
    viol = []
    if r['state'] != 'excepted' or r['exception'] is not X:
        viol.append(V('not-excepted', 'not-excepted:%s:%s' % (r['state'], sig_tail), 'fault in %s of an outline: workchain ended %s with %r' % (where, r['state'], r['exception'])))
    elif r['future'] != ['exception', lifecycle.describe_exc(X)]:
        viol.append(V('future-not-raising', 'future-not-raising:' + sig_tail, 'future is %s' % (r['future'],)))
    if r['task'] != ['done']:
        viol.append(V('stepping-task', 'stepping-task:%s:%s' % (r['task'][0], sig_tail), 'stepping task ended %s' % (r['task'],)))
    if not r['closed']:
        viol.append(V('not-closed', 'not-closed:' + sig_tail, 'workchain not closed'))
    if any(e is X for e in r['loop_excs']):
        viol.append(V('escaped-to-loop', 'escaped-to-loop:' + sig_tail, 'injected exception reached the loop exception handler'))
    return {'viol': viol, 'obs': obs, 'key': [case['name'], case['scenario'], case['fault']], 'nontrivial': True,
            'sample': {'program': case['name'], 'scenario': case['scenario'], 'fault': case['fault'], 'final': r['state'], 'calls_before_fault': r['trace']}}


def run_case(case):
    global FAULT
    if case.get('kind') == 'outline':
        return run_outline_case(case)
    V = judges.V
    fault = case.get('fault')
    ref = _reference(case) if fault is not None else None
    FAULT = tuple(fault) if fault else None
    obs = {'fired': 0, 'class': {}, 'points': {}, 'loop_contexts': 0}
    viol = []
    constructed = True
    try:
        run = FaultRun(dict(case))
        try:
            run.execute()
            rec = run.record()
        except ProgError as exc:
            constructed = False
            rec = None
            raised = exc
        except Exception as exc:  # noqa: BLE001
            # the run itself broke down: expected only when a fault during construction was swallowed and the harness went on
            # with a process that is not usable (judged below as construct-swallowed); anything else is a harness error
            if fault is None or _classify(fault[0], fault[2]) != 'construct' or not FIRED:
                raise
            rec = None
            raised = exc
    finally:
        FAULT = None
    fired = list(FIRED)
    if fault is None:
        return {'viol': [], 'obs': obs, 'key': [case['name'], case['scenario'], None], 'nontrivial': False,
                'sample': {'program': case['name'], 'scenario': case['scenario'], 'fault': None, 'final': rec['final']['state']}}
    point, pos, occ = fault
    cls = _classify(point, occ)
    where = '%s/%s' % (point, pos)
    sig_tail = '%s:%s' % (where, case['scenario'])
    if not fired:
        return {'viol': [], 'obs': obs, 'inconclusive': 'fault-not-reached', 'key': [case['name'], case['scenario'], fault], 'nontrivial': False}
    obs['fired'] = 1
    obs['class'][cls] = 1
    obs['points'][where] = 1
    X = fired[0]
    xdesc = lifecycle.describe_exc(X)
    if point == 'set_status':
        # judged by the code it was called from: a pause / play hook, another hook, or a step
        cls = 'pauseplay' if X.ctx_hook in PP_HOOKS else ('hook' if X.ctx_hook else 'user')
        obs['class'] = {cls: 1}
        obs['set_status_faults'] = 1
    if cls == 'construct':
        if constructed:
            viol.append(V('construct-swallowed', 'construct-swallowed:' + sig_tail, 'exception raised in %s during construction did not propagate to the caller' % where))
        elif raised is not X:
            viol.append(V('construct-wrong-exception', 'construct-wrong-exception:' + sig_tail, 'constructor raised %r instead of the injected exception' % (raised,)))
        return _result(case, fault, viol, obs, None)
    if not constructed:
        viol.append(V('escaped-constructor', 'escaped-constructor:' + sig_tail, 'injected exception escaped from the harness run'))
        return _result(case, fault, viol, obs, None)
    fin = rec['final']
    obs['loop_contexts'] = len(rec['loop_errors'])
    # never escapes into the event loop (identity, including exception chains)
    for exc in run.loop_error_excs:
        e = exc
        seen = 0
        while e is not None and seen < 10:
            if e is X:
                viol.append(V('escaped-to-loop', 'escaped-to-loop:' + sig_tail, 'injected exception reached the event loop exception handler: %s' % rec['loop_errors']))
                break
            e = e.__cause__ or e.__context__
            seen += 1
    if fin['state'] == 'excepted' and rec.get('future_unretrieved'):
        # ... nor does it later: a failed process that nobody waits for (launch(), a launcher with nowait) is collected with the
        # exception on its future marked as never looked at, and asyncio then reports it to the handler of the loop
        viol.append(V('escapes-on-collection', 'escapes-on-collection:' + sig_tail, 'the process is EXCEPTED and the exception on its future is flagged as never retrieved: it is reported to the event loop when the process is collected'))
    obs['future_flag_checked'] = int(rec.get('future_unretrieved') is not None)
    if rec['task'] not in (['done'],):
        if not (rec['task'] == ['pending'] and not fin['terminated']):
            viol.append(V('stepping-task', 'stepping-task:%s:%s' % (rec['task'][0], sig_tail), 'stepping task ended %s' % (rec['task'],)))
    obs['self_cancelling_callbacks'] = int(bool(SELF_CANCELLED))
    if point in ('callback', 'step') and X.proc_terminated:
        # a scheduled callback (or the rest of a step) failing after the process terminated -- it was failed or killed from outside
        # in the meantime -- changes nothing (terminal states are final)
        a, b = _summary(rec), _summary(ref)
        if a != b:
            viol.append(V('late-callback-changed-run', 'late-callback-changed-run:' + sig_tail, 'late failing callback changed the outcome: %s vs %s' % (a, b)))
        obs['late_callbacks'] = 1
    elif cls in ('user', 'hook'):
        if fin['state'] != 'excepted':
            viol.append(V('not-excepted', 'not-excepted:%s:%s' % (fin['state'], sig_tail), 'fault in %s but process ended %s (stuck=%s)' % (where, fin['state'], rec['stuck'])))
        else:
            if fin['exception'] != xdesc:
                viol.append(V('wrong-exception', 'wrong-exception:' + sig_tail, 'EXCEPTED with %s instead of the injected %s' % (fin['exception'], xdesc)))
            if fin['future'] != ['exception', xdesc]:
                viol.append(V('future-not-raising', 'future-not-raising:' + sig_tail, 'future is %s, expected to raise %s' % (fin['future'], xdesc)))
            if run.proc.exception() is not X:
                viol.append(V('exception-identity', 'exception-identity:' + sig_tail, 'exception() is not the injected exception object'))
            entering = ('on_run', 'on_wait', 'on_finish', 'on_kill', 'on_except')
            if (point in entering and pos == 'before') or (point == 'set_status' and X.ctx_hook in entering):
                # the state was being entered, the future had not been resolved yet: a waiter that got the future before the run is
                # told the same as everybody else
                obs['early_future_checks'] = int(rec.get('early_future') is not None)
                if rec.get('early_future') is not None and rec.get('early_future') != ['exception', xdesc]:  # (None: the instance that handed it out is gone)
                    viol.append(V('early-future-differs', 'early-future-differs:' + sig_tail, 'the future handed out before the run ended %s, the process '
                                  'EXCEPTED with %s' % (rec.get('early_future'), xdesc)))
            if fin['closed'] is not True:
                viol.append(V('not-closed', 'not-closed:' + sig_tail, 'process not closed after ending EXCEPTED'))
            if rec['task'] != ['done']:
                viol.append(V('stepping-not-returned', 'stepping-not-returned:' + sig_tail, 'stepping task %s' % (rec['task'],)))
            # whoever asked for a kill is not told that the process was killed
            futs = dict(rec['futs'])
            for a in rec['acts']:
                if a['kind'] == 'kill' and a['live_before'] and (a['ret'] == ['value', True] or futs.get(a['n']) == ['result', True]):
                    viol.append(V('kill-reported-true', 'kill-reported-true:' + sig_tail, 'the process ended EXCEPTED (fault in %s) but kill() reported True (%s / %s)' % (
                        where, a['ret'], futs.get(a['n']))))
                    break
    elif cls == 'listener':
        a, b = _summary(rec), _summary(ref)
        if a != b:
            viol.append(V('listener-fault-changed-run', 'listener-fault-changed-run:' + sig_tail, 'run with failing listener %s differs: %s vs %s' % (where, a, b)))
    elif cls == 'pauseplay':
        # reported to whoever requested the pause or play; process live and controllable
        reported = False
        for a in rec['acts']:
            if a['kind'] in ('pause', 'play', 'rpc_pause') and a['ret'][0] == 'raise' and a['ret'][1] == xdesc:
                reported = True
        for n, desc in rec['futs']:
            if desc == ['exception', xdesc] or (desc[0] == 'exception' and xdesc[1] in str(desc)):
                reported = True  # (a reply sent over a communicator may carry the exception wrapped)
        if not reported:
            viol.append(V('pp-fault-not-reported', 'pp-fault-not-reported:' + sig_tail, 'fault in %s was not reported to the requester (acts %s, futures %s)' % (
                where, [[a['kind'], a['ret']] for a in rec['acts']], rec['futs'])))
        if fin['state'] == 'excepted' and fin['exception'] == xdesc:
            viol.append(V('pp-fault-terminated', 'pp-fault-terminated:' + sig_tail, 'fault in %s terminated the process' % where))
        else:
            # "leaves the process live and controllable": the scenario's remaining play / resumes / kill must bring it to a proper end
            # (the failed pause may legitimately change *when* the rest of the scenario hits the process, so no run equality is demanded)
            if rec['stuck'] is not None:
                viol.append(V('pp-fault-stuck', 'pp-fault-stuck:' + sig_tail, 'after a fault in %s the process is stuck: %s' % (where, rec['stuck'])))
            obs['pp_completed'] = int(bool(fin['terminated']))
            # in a sibling run with the same fault, a further pause must take effect ...
            if point != 'on_playing':
                r = run_pause_sibling(case)
                obs['pp_pause_siblings'] = 1
                if r is not None:
                    viol.append(V('pp-fault-unpausable', 'pp-fault-unpausable:' + sig_tail, r))
            # ... and a kill must work
            if True:
                r = run_kill_sibling(case)
                obs['pp_kill_siblings'] = 1
                if r is not None:
                    viol.append(V('pp-fault-uncontrollable', 'pp-fault-uncontrollable:' + sig_tail, r))
    return _result(case, fault, viol, obs, rec)


def run_kill_sibling(case):
    """Same faulty run, but finished by a kill instead of play/resume: the process must end KILLED."""
    global FAULT
    FAULT = tuple(case['fault'])
    try:
        sib = dict(case, drain=False, probe=True)
        try:
            rec = FaultRun(sib).execute().record()
        except ProgError:
            return None
    finally:
        FAULT = None
    probed = [a for a in rec['acts'] if a['via'] == 'probe' and a['live_before']]
    if not probed:
        return None if rec['final']['terminated'] else 'process neither terminated nor probed'
    if probed[0]['ret'][0] == 'raise':
        return 'after the fault kill() raised %s' % (probed[0]['ret'],)
    if rec['final']['state'] != 'killed' and not (rec['final']['state'] == 'excepted' and (rec['final']['exception'] or [''])[0] == 'ProgError'):
        return 'after the fault a kill() did not terminate the process (state %s)' % rec['final']['state']
    return None


def run_pause_sibling(case):
    """Same faulty run (without the scenario's play/kill), then pause once more at the next quiescent point: it must take effect."""
    global FAULT
    FAULT = tuple(case['fault'])
    try:
        plan = [e for e in case['plan'] if e['act'][0] in ('pause', 'rpc_pause')] + [{'at': 'q', 'act': ['pause', 'again']}]
        sib = dict(case, plan=plan, drain=False, probe=False)
        try:
            rec = FaultRun(sib).execute().record()
        except ProgError:
            return None
    finally:
        FAULT = None
    again = [a for a in rec['acts'] if a['arg'] == 'again']
    if not again or not again[0]['live_before']:
        return None
    if again[0]['ret'][0] == 'raise':
        return 'after the fault a further pause() raised %s' % (again[0]['ret'],)
    if not rec['final']['paused'] and not rec['final']['terminated']:
        return 'after the fault a further pause() (%s) never took effect: process %s, not paused' % (again[0]['ret'], rec['final']['state'])
    return None


def _result(case, fault, viol, obs, rec):
    res = {'viol': judges._dedupe(viol), 'obs': obs, 'key': [case['name'], case['scenario'], fault], 'nontrivial': True,
           'inconclusive': rec['inconclusive'] if rec else None}
    res['sample'] = {'program': case['name'], 'scenario': case['scenario'], 'fault': fault,
                     'final': rec['final']['state'] if rec else 'constructor raised', 'exception': rec['final']['exception'] if rec else None}
    return res
