"""C12 -- outputs are stored only if valid; success requires spec-conforming outputs."""
import copy

import plumpy
from plumpy.ports import OutputPort, PortNamespace

from pv import judges, plans
from pv.driver import BudgetExceeded, Driver
from pv.monitors import c11
from pv.monitors.c11 import TYPES, VALIDATORS, A, B, Reject

ID = 'C12'
TITLE = 'out() validation and success downgrade'
ANCHORS = ['plumpy.processes:Process.out', 'plumpy.processes:Process.on_finish', 'plumpy.ports:PortNamespace.get_port', 'plumpy.ports:PortNamespace.validate_dynamic_ports']
LEVEL = 'exploration'
TECHNIQUE = ('runtime monitoring against a reference model: generated processes emit scripted (port path, value) sequences; every out() verdict, the '
             'outputs after each emission, the listener notifications, the future and the success flag are compared with an independent '
             'acceptance model of the output spec')
RULE = ('output specs: port trees to depth 2 (thorough 3) over names {a, ab, n, x} with required / valid_type / validator on ports and required / '
        'dynamic / valid_type / validator on namespaces x emission sequences of length <=4 over declared, undeclared, nested and prefix-colliding '
        'paths of depth <=3 x values {1, "s", None, {}, nested dicts with good/bad leaves, class instances}; distinct by (spec, emissions); '
        'non-trivial when >=1 emission was accepted and >=1 rejected, or the success flag was downgraded')
RULE += ('; also: list outputs mutated after acceptance, namespace validators objecting to the empty mapping, identity of the objects the future reports')
ASSUMPTIONS = ['a fresh Process class per case (emitting into a dynamic namespace adds namespaces to the class spec)',
               'reference model written from the statement; namespace creation by earlier emissions is tracked by the model']
REQUIRED = ['stop_commands_with_computed_flags', 'raising_validator_at_finish', 'emission_from_exit_hook', 'emissions_from_a_notification', 'own_rule_two_levels_down', 'emissions', 'accepted', 'rejected', 'rejected_valueerror', 'dynamic_accepted', 'nested_paths', 'unchanged_checks', 'listener_checks',
            'success/true', 'success/false_by_outputs', 'dict_values', 'identity_checks', 'late_emissions', 'other_separator']
BOUNDS = {'quick': '300 specs x 12 emission sequences', 'thorough': '3000 specs x 25 sequences'}
NAMES = ['a', 'ab', 'n', 'x']
UN = c11.UN


def rand_out_port(rng):
    attrs = {}
    if rng.random() < 0.4:
        attrs['required'] = False
    vt = rng.choice([None, 'int', 'str', 'A', 'intstr'])
    if vt:
        attrs['valid_type'] = vt
    if rng.random() < 0.2 and vt in (None, 'int', 'intstr'):
        attrs['validator'] = rng.choice(['v_not1', 'v_not1', 'v_not1_empty'])  # (the second refuses with an empty message)
    if rng.random() < 0.12:
        # a port for list values with a validator on their length (the emitted list may be filled further afterwards)
        attrs = {k: v for k, v in attrs.items() if k == 'required'}
        attrs['validator'] = 'v_short'
    return ['port', attrs]


def rand_out_ns(rng, depth, top=False):
    attrs = {}
    if rng.random() < 0.4:
        attrs['required'] = False
    if rng.random() < 0.4:
        attrs['dynamic'] = True
    if rng.random() < 0.3:
        attrs['valid_type'] = rng.choice(['int', 'str', 'A', 'int', 'str', 'A', 'intdict'])  # ('intdict': a type that admits mappings too)
    if rng.random() < 0.15:
        attrs['validator'] = 'nsv_no_x'
    elif rng.random() < 0.15:
        # "at least one result has to be emitted here" (every third one says so by raising)
        attrs['validator'] = 'nsv_some' if rng.random() < 0.67 else 'nsv_some_raises'
    children = {}
    for name in rng.sample(NAMES, rng.randint(0, 3) if not top or str(attrs.get('validator')).startswith('nsv_some') else rng.randint(1, 3)):
        children[name] = rand_out_ns(rng, depth - 1) if depth > 0 and rng.random() < 0.4 else rand_out_port(rng)
    return ['ns', attrs, children]


def _paths(ns, prefix=''):
    out = []
    for name, d in ns[2].items():
        out.append((prefix + name, d))
        if d[0] == 'ns':
            out.extend(_paths(d, prefix + name + '.'))
    return out


def rand_emissions(rng, spec):
    declared = _paths(spec)
    ems = []
    for _ in range(rng.randint(1, 4)):
        r = rng.random()
        if declared and r < 0.55:
            path, d = rng.choice(declared)
            if d[0] == 'ns' and rng.random() < 0.6:
                path = path + '.' + rng.choice(['k', 'x', 'a', 'ab'])
                if rng.random() < 0.3:
                    path += '.' + rng.choice(['j', 'a', 'k'])
                vt = d[1].get('valid_type')
            else:
                vt = d[1].get('valid_type')
        else:
            path = rng.choice(['q', 'a', 'ab', 'abc', 'n.q', 'x.y.z', 'q.r', 'ab.c'])
            vt = spec[1].get('valid_type')
        r2 = rng.random()
        if r2 < 0.5:
            val = c11._good_value(rng, vt)
        elif r2 < 0.7:
            val = c11._bad_value(rng, vt)
        elif r2 < 0.8:
            val = {'j': c11._good_value(rng, vt), 'i': c11._good_value(rng, vt)}
        elif r2 < 0.9:
            val = {'j': c11._good_value(rng, vt), 'i': c11._bad_value(rng, vt)}
        else:
            val = rng.choice([{}, None, {'d': {'e': c11._good_value(rng, vt)}}])
        if d_short(declared, path):
            val = rng.choice([['@L'], ['@L', 2], []])
            ems.append([path, val])
            if rng.random() < 0.6:
                ems.append(['@mutate', path])  # the emitted list gets one more element after it was accepted
            continue
        ems.append([path, val])
    return ems


def d_short(declared, path):
    return any(p == path and d[0] == 'port' and d[1].get('validator') == 'v_short' for p, d in declared)


def gen_cases(tier, seed):
    rng = plans.rng_for(seed, 'c12')
    nspecs, nseq, depth = (300, 12, 2) if tier == 'quick' else (3000, 25, 3)
    for s in range(nspecs):
        spec = rand_out_ns(rng, depth, top=True)
        for _ in range(nseq):
            # (every fifth spec addresses its nested ports with another separator than '.')
            yield {'spec': spec, 'emissions': rand_emissions(rng, spec), 'ret': rng.choice([None, 9, 'r', ['unsucc', 2], ['stop', 'r', 1], ['stop', 4, 0]]), 'slash': s % 5 == 4,
                   'exit_emission': s % 3 == 1}


# --- building ------------------------------------------------------------------------------
def _kw(attrs):
    kw = {}
    for k, v in attrs.items():
        kw[k] = TYPES[v] if k == 'valid_type' else (VALIDATORS[v] if k == 'validator' else v)
    return kw


class SlashNamespace(PortNamespace):
    """The namespace class of an application: levels separated by '/', and a rule of its own about the names of dynamic ports
    ('k' is refused) -- which holds in every namespace of the spec, also in those an emission creates on the way."""
    NAMESPACE_SEPARATOR = '/'

    def validate_dynamic_ports(self, port_values, breadcrumbs=()):
        if isinstance(port_values, dict) and 'k' in port_values:
            from plumpy.ports import PortValidationError
            return PortValidationError("the name 'k' is not allowed for a dynamic port", self.NAMESPACE_SEPARATOR.join((*breadcrumbs, 'k')))
        return super().validate_dynamic_ports(port_values, breadcrumbs)


class SlashSpec(plumpy.ProcessSpec):
    """A spec whose nested ports are addressed as ``ns/port`` (the separator belongs to the spec's namespace type)."""
    PORT_NAMESPACE_TYPE = SlashNamespace


def build(ns, children):
    for name, d in children.items():
        if d[0] == 'port':
            ns[name] = OutputPort(name, **_kw(d[1]))
        else:
            sub = type(ns)(name, **_kw(d[1]))
            ns[name] = sub
            build(sub, d[2])


_N = [0]


class Emitter(plumpy.Process):
    SPEC = None

    held_back = ()

    def run(self):
        self.emit_log = []
        emissions = list(self.emissions)
        if getattr(self, 'emit_last_on_exit', False) and emissions and emissions[-1][0] != '@mutate':
            # the last emission is made by the hook that runs when the step is left (still before anybody judges the outputs)
            self.held_back = [emissions.pop()]
        self._emit(emissions)
        ret = self.ret
        if isinstance(ret, list) and ret[0] == 'stop':
            # an explicit stop command whose flag is a computed value (a count, a scalar of some numeric library): true or false as it is
            return plumpy.Stop(ret[1], ret[2])
        if isinstance(ret, list):
            return plumpy.UnsuccessfulResult(ret[1])
        return ret

    def on_exit_running(self):
        super().on_exit_running()
        held, self.held_back = self.held_back, ()
        self._emit(held)

    def _emit(self, emissions):
        log = self.emit_log
        for path, value in emissions:
            if path == '@mutate':
                target = self.outputs
                for part in value.split('.'):
                    target = target.get(part) if isinstance(target, dict) else None
                if isinstance(target, list):
                    target.append('later')
                log.append(['mutated', value, isinstance(target, list)])
                continue
            before = copy.deepcopy(c11.plain(self.outputs))
            try:
                self.out(path.replace('.', self.spec().namespace_separator), value)
                log.append(['ok', path, c11.plain(self.outputs) == before])
            except Exception as exc:  # noqa: BLE001
                log.append(['raise', path, type(exc).__name__, c11.plain(self.outputs) == before])

    def on_finished(self):
        if getattr(self, 'late', None):
            # a subclass that emits one more (acceptable) output when it is told that it has finished, before the listeners are
            self.out(*self.late)
        super().on_finished()


class OutListener(plumpy.ProcessListener):
    def __init__(self):
        super().__init__()
        self.emitted = []

    echo = False  # answer the first emission it is told of with a derived output of its own (from inside the notification)

    def on_output_emitted(self, process, output_port, value, dynamic):
        self.emitted.append([output_port, value, dynamic])
        if self.echo:
            self.echo = False
            process.out('zz_echo', 2)


def make_class(spec, slash=False):
    _N[0] += 1

    def define(cls, pspec):
        super(cls, cls).define(pspec)
        for k, v in _kw(spec[1]).items():
            setattr(pspec.outputs, k, v)
        build(pspec.outputs, spec[2])

    cls = type('Out_%d' % _N[0], (Emitter,), {'_spec_class': SlashSpec} if slash else {})
    cls.define = classmethod(define)
    return cls


# --- reference model -----------------------------------------------------------------------
class Model:
    def __init__(self, spec, own_namespace_class=False):
        self.spec = copy.deepcopy(spec)  # grows when emissions create namespaces
        self.own_namespace_class = own_namespace_class

    def emit(self, path, value):
        """-> ('accept', dynamic) or ('reject', reason, valueerror?)."""
        parts = path.split('.')
        ns = self.spec
        for part in parts[:-1]:
            child = ns[2].get(part)
            if child is None:
                if not self._dynamic(ns):
                    return ('reject', 'namespace %s does not exist and parent is not dynamic' % part, True)
                child = ['ns', dict(ns[1]), {}]
                ns[2][part] = child
            elif child[0] == 'port':
                return ('reject', '%s is a port, not a namespace' % part, False)
            ns = child
        leaf = parts[-1]
        d = ns[2].get(leaf)
        if d is not None:
            if d[0] == 'port':
                vt = d[1].get('valid_type')
                if value == () and d[1].get('required', True):
                    return ('reject', 'unspecified', True)
                if vt is not None and not isinstance(value, TYPES[vt]):
                    return ('reject', 'wrong type for declared port', True)
                if d[1].get('validator') and VALIDATORS[d[1]['validator']](value, None) is not None:
                    return ('reject', 'validator', True)
                return ('accept', False)
            try:
                c11.model_valid_ns(d[1], d[2], value, {})
            except Reject as rej:
                return ('reject', 'namespace value: %s' % rej, True)
            return ('accept', False)
        if not self._dynamic(ns):
            return ('reject', 'undeclared port in non-dynamic namespace', True)
        if self.own_namespace_class and leaf == 'k':
            return ('reject', 'dynamic port name refused by the namespace class of the spec', True)
        vt = ns[1].get('valid_type')
        if vt is not None and not c11._leaves_ok(value, TYPES[vt]):
            return ('reject', 'dynamic value of wrong type', True)
        return ('accept', True)

    @staticmethod
    def _dynamic(ns):
        return ns[1].get('dynamic', False) or ns[1].get('valid_type') is not None

    def outputs_valid(self, outputs):
        try:
            c11.model_valid_ns(self.spec[1], self.spec[2], outputs, {})
            return True
        except Reject:
            return False


def _store(outputs, path, value):
    parts = path.split('.')
    ns = outputs
    for p in parts[:-1]:
        ns = ns.setdefault(p, {})
    ns[parts[-1]] = value


def _can_store(outputs, path):
    ns = outputs
    for p in path.split('.')[:-1]:
        if p in ns and not isinstance(ns[p], dict):
            return False
        ns = ns.get(p, {})
    return True


def _objects(mapping, prefix=''):
    """path -> object for the values that only identity can compare (class instances without __eq__); values with value equality
    are compared by value, so that a defensive copy of a list or dict is not mistaken for a violation."""
    out = {}
    if not isinstance(mapping, (dict, plumpy.utils.Frozendict)):
        return out
    for k, v in mapping.items():
        if isinstance(v, (dict, plumpy.utils.Frozendict)):
            out.update(_objects(v, prefix + k + '.'))
        elif isinstance(v, A):
            out[prefix + k] = v  # (an object without value equality: a copy of it is not "the stored value" by any reading)
    return out


def run_case(case):
    V = judges.V
    spec = case['spec']
    cls = make_class(spec, slash=bool(case.get('slash')))
    emissions = [[p, c11._real(v)] for p, v in case['emissions']]
    obs = {'emissions': len(emissions), 'accepted': 0, 'rejected': 0, 'rejected_valueerror': 0, 'dynamic_accepted': 0, 'nested_paths': 0,
           'unchanged_checks': 0, 'listener_checks': 0, 'success': {}, 'dict_values': 0, 'other_separator': int(bool(case.get('slash'))),
           'own_rule_two_levels_down': int(bool(case.get('slash')) and any(p != '@mutate' and p.count('.') >= 2 and p.endswith('.k') for p, _v in emissions))}
    viol = []
    with Driver(3000) as drv:
        try:
            proc = cls(loop=drv.loop)
        except Exception as exc:  # noqa: BLE001
            return {'viol': [], 'obs': obs, 'inconclusive': 'spec-error:%s' % type(exc).__name__, 'key': case, 'nontrivial': False}
        proc.emissions = copy.deepcopy(emissions)
        proc.ret = case['ret']
        proc.emit_last_on_exit = bool(case.get('exit_emission'))
        obs['emission_from_exit_hook'] = int(bool(case.get('exit_emission')) and bool(emissions) and emissions[-1][0] != '@mutate')
        late = None
        if spec[1].get('dynamic') and not spec[1].get('valid_type') and not spec[1].get('validator') and 'zz_late' not in spec[2]:
            late = proc.late = ('zz_late', 1)
            obs['late_emissions'] = 1
        lst = OutListener()
        echo = bool(late) and case.get('echo', True) and 'zz_echo' not in spec[2]
        lst.echo = echo
        proc.add_process_listener(lst)
        task = drv.loop.create_task(proc.step_until_terminated())
        try:
            drv.pump()
        except BudgetExceeded:
            return {'viol': [], 'obs': obs, 'inconclusive': 'budget', 'key': case, 'nontrivial': False}
        log = getattr(proc, 'emit_log', [])
        state = proc.state.value
        fut = proc.future()
        fut_result = c11.plain(fut.result()) if fut.done() and not fut.cancelled() and fut.exception() is None else ['no-result', repr(fut)]
        outputs = c11.plain(proc.outputs)
        # the objects the future (and through it execute() and the finished listeners) reports are the stored ones, not copies
        same_objects = None
        if state == 'finished' and fut.done() and not fut.cancelled() and fut.exception() is None:
            stored, reported = _objects(proc.outputs), _objects(fut.result())
            obs['identity_checks'] = len(stored)
            same_objects = [p for p in stored if stored[p] is not reported.get(p)]
        is_successful = proc.is_successful
        result = proc.result() if state == 'finished' else None
        exc_desc = repr(proc.exception()) if state == 'excepted' else None
    model = Model(spec, own_namespace_class=bool(case.get('slash')))
    echoed = False
    exp_outputs = {}
    exp_emitted = []
    shape = c11._shape(spec)
    for i, (path, value) in enumerate(emissions):
        if path == '@mutate':
            target = exp_outputs
            for part in value.split('.'):
                target = target.get(part) if isinstance(target, dict) else None
            if isinstance(target, list):
                target.append('later')
                obs['mutated_after_emission'] = obs.get('mutated_after_emission', 0) + 1
            continue
        verdict = model.emit(path, value)
        if verdict[0] == 'accept' and not _can_store(exp_outputs, path):
            # the spec accepts it but an earlier emission stored a plain value where this path needs a namespace: cannot be stored
            verdict = ('reject', 'path occupied by an earlier value', False)
        got = log[i] if i < len(log) else ['missing']
        if '.' in path:
            obs['nested_paths'] += 1
        if isinstance(value, dict):
            obs['dict_values'] += 1
        ctx = 'emission %d %s=%r after %r (spec %s)' % (i, path, case['emissions'][i][1], case['emissions'][:i], shape)
        if verdict[0] == 'accept':
            obs['accepted'] += 1
            if verdict[1]:
                obs['dynamic_accepted'] += 1
            _store(exp_outputs, path, value)
            exp_emitted.append([path, value, verdict[1]])
            if echo and not echoed:
                # the listener answers the first notification with an output of its own: stored and announced like any other
                echoed = True
                model.emit('zz_echo', 2)
                exp_outputs['zz_echo'] = 2
                exp_emitted.append(['zz_echo', 2, True])
                obs['emissions_from_a_notification'] = 1
            if got[0] != 'ok':
                viol.append(V('rejected-valid-output', 'rejected-valid-output:%s:%s' % ('dynamic' if verdict[1] else 'declared', got[2] if len(got) > 2 else '?'),
                              'out() raised %s for an acceptable value: %s' % (got[2:], ctx)))
                break
        else:
            obs['rejected'] += 1
            if got[0] == 'ok':
                viol.append(V('stored-invalid-output', 'stored-invalid-output:%s' % verdict[1].split(':')[0], 'out() stored a value the spec rejects (%s): %s' % (verdict[1], ctx)))
                break
            obs['unchanged_checks'] += 1
            if got[3] is not True:
                viol.append(V('outputs-changed-by-rejected', 'outputs-changed-by-rejected', 'a rejected emission changed the outputs: %s' % ctx))
            if verdict[2]:
                if got[2] == 'ValueError':
                    obs['rejected_valueerror'] += 1
                else:
                    viol.append(V('rejection-not-valueerror', 'rejection-not-valueerror:%s' % got[2], 'rejected value raised %s instead of ValueError: %s' % (got[2], ctx)))
    valid_at_finish = model.outputs_valid(exp_outputs)  # (what on_finish judged: the outputs collected when the last step returned)
    if not viol and late and state == 'finished':
        exp_outputs['zz_late'] = 1
        exp_emitted.append(['zz_late', 1, True])
        if echo and not echoed:
            # (nothing was announced before: the late emission is the first notification the echoing listener gets)
            echoed = True
            exp_outputs['zz_echo'] = 2
            exp_emitted.append(['zz_echo', 2, True])
            obs['emissions_from_a_notification'] = 1
    if not viol:
        obs['listener_checks'] = len(exp_emitted)
        sep = '/' if case.get('slash') else '.'
        if [[p, c11.plain(v), d] for p, v, d in lst.emitted] != [[p.replace('.', sep), c11.plain(v), d] for p, v, d in exp_emitted]:
            viol.append(V('listener-args', 'listener-args', 'on_output_emitted got %r, expected %r (spec %s)' % (lst.emitted, exp_emitted, shape)))
        if outputs != c11.plain(exp_outputs):
            viol.append(V('outputs-differ', 'outputs-differ', 'outputs %r, expected %r (spec %s, emissions %r)' % (outputs, exp_outputs, shape, case['emissions'])))
        ret = case['ret']
        returned_ok = bool(ret[2]) if isinstance(ret, list) and ret[0] == 'stop' else not isinstance(ret, list)
        obs['stop_commands_with_computed_flags'] = int(isinstance(ret, list) and ret[0] == 'stop')
        valid = valid_at_finish
        exp_success = returned_ok and valid
        exp_result = ret[1] if isinstance(ret, list) else ret
        if state == 'excepted' and not valid and 'nsv_some_raises' in repr(case['spec']):
            # a validator of a namespace objected to the final outputs by raising: the process has not ended successful (it ended
            # EXCEPTED with what the validator raised) -- which is all the statement asks of outputs that do not satisfy the spec
            obs['raising_validator_at_finish'] = 1
        elif state != 'finished':
            viol.append(V('not-finished', 'not-finished:%s' % state, 'process ended %s (%s) (spec %s, emissions %r)' % (state, exc_desc, shape, case['emissions'])))
        else:
            if same_objects:
                viol.append(V('future-other-objects', 'future-other-objects', 'future().result() reports other objects than the stored ones at %s (outputs %r)' % (same_objects, outputs)))
            if fut_result != outputs:
                viol.append(V('future-differs', 'future-differs', 'future().result() %r differs from outputs %r' % (fut_result, outputs)))
            if is_successful != exp_success:
                viol.append(V('success-flag', 'success-flag:%s' % ('should-be-unsuccessful' if not exp_success else 'should-be-successful'),
                              'is_successful=%s, expected %s: outputs %r %s the spec %s (returned %r)' % (
                                  is_successful, exp_success, outputs, 'satisfy' if valid else 'do not satisfy', shape, ret)))
            if result != exp_result:
                viol.append(V('result-lost', 'result-lost', 'result() %r, expected %r' % (result, exp_result)))
            if exp_success:
                obs['success']['true'] = 1
            elif returned_ok:
                obs['success']['false_by_outputs'] = 1
    res = {'viol': judges._dedupe(viol), 'obs': obs, 'key': case, 'nontrivial': (obs['accepted'] > 0 and obs['rejected'] > 0) or bool(obs['success'].get('false_by_outputs'))}
    res['sample'] = {'spec': shape, 'emissions': case['emissions'], 'log': log, 'outputs': repr(outputs), 'is_successful': is_successful, 'state': state}
    return res
