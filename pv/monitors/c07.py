"""C07 -- save, load, save again yields the same bundle and the same observable process."""
import copy
import pickle
import uuid

import plumpy
import yaml
from plumpy import loaders

from pv import generated, judges, lifecycle, outlines, plans, programs
from pv.driver import BudgetExceeded, Driver
from pv.monitors import c14, c19
from pv.programs import _jsonable

ID = 'C07'
TITLE = 'save / load / save round trip'
ANCHORS = ['plumpy.persistence:Savable.save_members', 'plumpy.persistence:Savable.load_members', 'plumpy.processes:Process.save_instance_state', 'plumpy.processes:Process.load_instance_state', 'plumpy.workchains:WorkChain.save_instance_state', 'plumpy.persistence:_bundle_representer', 'plumpy.persistence:_bundle_constructor', 'plumpy.persistence:SavableFuture.recreate_from']
LEVEL = 'exploration'
TECHNIQUE = ('runtime monitoring by round-trip differential: at every state entry and every paused point of generated runs the process is bundled, '
             'carried through deepcopy / pickle / YAML with the default or a custom object loader, unbundled and bundled again; the two bundles are '
             'compared key by key and the public accessors of the loaded process with the original\'s')
RULE = ('process programs (declared nested inputs with defaults, nested and dynamic outputs, wait message/data, continuation arguments, context, '
        'every way of ending incl. killed / excepted / unsuccessful, int / str / UUID / default pids) and outline WorkChains (nested if / elif / '
        'else / while steppers) x plans with pause / play / kill x every save point (each ENTERED_STATE event, each paused point) x 3 media x '
        '{default loader, custom loader in both contexts}; distinct by (program, plan, save point, medium, loader); non-trivial for save points '
        'after CREATED')
RULE += ('; also: save points at every quiescent point and right after each request, processes with a custom state codec, input values mutated after construction, the bundles of one save point loaded through one reused load context')
ASSUMPTIONS = ['bundles compared structurally: exceptions by type and args, mappings order-insensitively, the traceback text of an excepted state ignored',
               'a WorkChain waiting on futures / children cannot be saved and is not a save point', 'listeners are not attached (they would be persisted)']
REQUIRED = ['points/entering', 'roundtrips', 'medium/copy', 'medium/pickle', 'medium/yaml', 'loader/default', 'loader/custom', 'points/created', 'points/running', 'points/waiting',
            'points/finished', 'points/excepted', 'points/killed', 'points/paused', 'points/after-cancel_future', 'points/after-abort_task', 'points/q-killed', 'points/q-excepted', 'points/q-finished', 'points/q-waiting', 'kinds/process', 'kinds/outline', 'stepper_states', 'accessors_compared', 'codec_processes']
BOUNDS = {'quick': '10 programs x 4 plans + 40 outlines, all save points, 6 round trips each', 'thorough': '+60 random programs, 400 outlines'}


_TICKETS = [100]


def _next_ticket():
    _TICKETS[0] += 1
    return _TICKETS[0]


class InProg(plumpy.ContextMixin, programs.ProgBase):
    """Program interpreter with a declared (nested, defaulted) input spec and a context."""

    @classmethod
    def define(cls, spec):
        super().define(spec)
        spec.input('a', valid_type=int, default=3)
        spec.input('ns.b', valid_type=str, required=False)
        spec.input('ns.deep.c', default=[1, 2])
        spec.input_namespace('lazy', populate_defaults=False, required=False)
        spec.input('lazy.z', default=9)
        # a default that is computed when the process is constructed, and differs from one call to the next ("the next free
        # ticket"): the value the process was constructed with is part of its state, a load does not draw another one
        spec.input('ticket', default=_next_ticket)
        spec.output('declared', required=False)
        spec.output_namespace('outns', dynamic=True, required=False)

    def _enter(self, i, args, kwargs):
        super()._enter(i, args, kwargs)
        self.ctx.setdefault('seen', []).append(i)
        self.ctx.last = {'step': i, 'args': _jsonable(args)}
        deep = self.inputs.get('ns', {}).get('deep', {}).get('c') if self.inputs is not None else None
        if isinstance(deep, dict):
            # an input value given by the caller is changed in place: every save must carry the value of its own moment
            deep['m'].append('step-%d' % i)


generated.register(InProg, 'InProg')


class InProgNoDefaults(plumpy.ContextMixin, programs.ProgBase):
    """Declared nested namespaces and not a single default: what the process is given is, value for value, what it parses."""

    @classmethod
    def define(cls, spec):
        super().define(spec)
        spec.input('a', valid_type=int, required=False)
        spec.input('ns.b', valid_type=str, required=False)
        spec.input('ns.deep.c', required=False)
        spec.input_namespace('lazy', required=False, dynamic=True)


generated.register(InProgNoDefaults, 'InProgNoDefaults')


class InProgCodec(programs.CodecMixin, InProg):
    """The same with inputs and outputs stored in an encoded form."""


generated.register(InProgCodec, 'InProgCodec')
S = programs.step


def _programs(tier, seed):
    rng = plans.rng_for(seed, 'c07p')
    P = {
        'value': [S(['cont', [1, 'x'], {'k': [1]}], yields=1, fx=[(0, ['out', 'declared', 5]), (1, ['out', 'outns.d1', {'n': 1}])]),
                  S(['wait', 'waiting-msg', {'data': [1, 2]}], sync=True, fx=[(0, ['out', 'dyn_top', 's'])]), S(['value', {'r': 1}], yields=1)],
        'unsucc': [S(['wait', None, None], sync=True), S(['unsucc', 7], sync=True)],
        'stop_false': [S(['cont', [], {}], sync=True), S(['stop', 'res', False], yields=1)],
        'raises': [S(['cont', [None], {}], yields=1), S(['raise', 'bad'], sync=True)],
        'killcmd': [S(['wait', 'w', None], yields=1), S(['kill', 'cmd-kill'], sync=True)],
        'killcmd_bare': [S(['cont', [], {}], yields=1), S(['kill', None], sync=True)],  # the bare Kill() command: no message at all
        'single': [S(['value', None], sync=True)],
        'misuse': [S(['cont', [], {}], sync=True), S(['misuse', 'v'], yields=1)],  # ends EXCEPTED with plumpy's own EventError
        'badchild': [S(['cont', [], {}], yields=1), S(['badchild'], sync=True)],  # ends EXCEPTED with plumpy's own PortValidationError inside a ValueError
        'two_waits': [S(['wait', 'a', {'x': 1}], sync=True), S(['wait', 'b', None], yields=1), S(['value', 0], sync=True)],
    }
    progs = {k: {'steps': v} for k, v in P.items()}
    for k in range(3 if tier == 'quick' else 60):
        progs['rnd%d' % k] = programs.random_program(rng, 4)
    return progs


INPUTS = [None, {'a': 7}, {'a': 1, 'ns': {'b': 's', 'deep': {'c': {'m': [1]}}}, 'lazy': {}, 'extra_dyn': 'e'}, {}]  # ({}: given, and empty)
PIDS = [None, 12, 'strpid', 'uuid']


def gen_cases(tier, seed):
    rng = plans.rng_for(seed, 'c07')
    n = 0
    for name, prog in sorted(_programs(tier, seed).items()):
        ns = plans.slots_of(prog)
        plist = [[], [{'at': 1, 'act': ['pause', 'pm']}, {'at': 'q', 'act': ['play']}], [{'at': 0, 'act': ['pause', None]}, {'at': 'q', 'act': ['play']}],
                 [{'at': max(1, ns // 2), 'act': ['kill', 'kk']}], [{'at': 2, 'act': ['pause', 'p2']}, {'at': 'q', 'act': ['kill', 'kp']}],
                 [{'at': 1, 'act': ['pause', 'p1']}, {'at': 'q', 'act': ['fail', 'fp']}],
                 [{'at': max(1, ns // 2), 'act': ['cancel_future']}], [{'at': 0, 'act': ['cancel_future']}], [{'at': 'q', 'act': ['cancel_future']}],
                 # whoever steps the paused process gives up (a save is taken right there, before the cancellation is delivered), later
                 # somebody steps and plays it again
                 [{'at': 1, 'act': ['pause', 'pa']}, {'at': 'q', 'act': ['abort_task']}, {'at': 'q', 'act': ['restart_task']}, {'at': 'q', 'act': ['play']}],
                 [{'at': max(1, ns // 2), 'act': ['abort_task']}, {'at': 'q', 'act': ['restart_task']}]]
        for plan in plist:
            n += 1
            yield {'kind': 'process', 'name': name, 'program': prog, 'plan': plan, 'inputs': INPUTS[n % 4], 'pid': PIDS[n % 4], 'codec': n % 5 in (1, 3)}
            if n % 7 == 2:
                yield {'kind': 'process', 'name': name, 'program': prog, 'plan': plan, 'inputs': INPUTS[2], 'pid': PIDS[n % 4], 'nodefaults': True}
    for i in range(40 if tier == 'quick' else 400):
        ast = outlines.random_ast(rng, rng.randint(1, 3), max_body=3)
        preds = [rng.random() < 0.6 for _ in range(rng.randint(0, 8))]
        rets = [rng.choice([None] * 12 + [0, 'r']) for _ in range(rng.randint(0, 8))]
        _t, _r, how = outlines.interpret(ast, preds, rets, max_calls=60)
        if how == 'budget':
            continue
        yield {'kind': 'outline', 'ast': ast, 'preds': preds, 'rets': rets, 'pid': PIDS[i % 4]}


def strip(x):
    """Structural form of a bundle; the traceback text of an excepted state is dropped."""
    if isinstance(x, dict):
        return {k: strip(v) for k, v in x.items() if k != 'traceback'}
    return x


def accessors(p):
    v = {'pid': repr(p.pid), 'state': p.state.value, 'raw_inputs': c14.norm(p.raw_inputs) if p.raw_inputs is not None else None,
         'inputs': c14.norm(p.inputs) if p.inputs is not None else None, 'outputs': c14.norm(p.outputs), 'status': p.status, 'paused': p.paused,
         'creation_time': p.creation_time, 'ctx': c14.norm(dict(p.ctx.__dict__)) if getattr(p, 'ctx', None) is not None else None,
         # (the kind of mapping at every level of the parsed inputs: read-only attribute mappings at the declared namespace levels)
         'inputs_mappings': _mapping_kinds(p.inputs) if p.inputs is not None else None}
    if p.has_terminated():
        v['result'] = _call(p.result)
        v['successful'] = _call(p.successful)
        exc = p.exception()
        v['exception'] = [type(exc).__name__, c14.norm(list(exc.args))] if exc is not None else None
        v['killed_msg'] = _call(p.killed_msg)
    return v


def _mapping_kinds(m, depth=0):
    if not isinstance(m, (dict, plumpy.utils.Frozendict)) or depth > 4:
        return None
    return [type(m).__name__, {str(k): _mapping_kinds(v, depth + 1) for k, v in m.items() if isinstance(v, (dict, plumpy.utils.Frozendict))}]


def _call(fn):
    try:
        return ['ok', c14.norm(fn())]
    except BaseException as exc:  # noqa: BLE001  (compared structurally: type and arguments, mappings order-insensitive)
        return ['raise', type(exc).__name__, c14.norm(list(exc.args))]


MEDIA = {
    'copy': copy.deepcopy,
    'pickle': lambda b: pickle.loads(pickle.dumps(b)),
    'yaml': lambda b: yaml.load(yaml.dump(b), Loader=yaml.Loader),
}


class SavePoints:
    """Performs the round trips at a save point and collects violations / counters."""

    def __init__(self, loop, label):
        self.loop = loop
        self.label = label
        self.viol = []
        self.shared = None
        self.obs = {'roundtrips': 0, 'medium': {}, 'loader': {}, 'points': {}, 'stepper_states': 0, 'accessors_compared': 0, 'unsaveable': 0}

    def at(self, proc, point):
        V = judges.V
        self.obs['points'][point] = self.obs['points'].get(point, 0) + 1
        saved = {}
        try:
            self._at(proc, point, saved)
        finally:
            self._shared_context(proc, point, saved)

    def _shared_context(self, proc, point, saved):
        """The bundles of this save point (one saved with the default loader, one with a custom loader recorded in it) loaded one
        after the other through ONE load context that names no loader -- the context a caller keeps around for all its loads."""
        V = judges.V
        if len(saved) < 2:
            return
        if self.shared is None:
            self.shared = plumpy.LoadSaveContext(loop=self.loop)
        want = accessors(proc)
        for lname in ('default', 'custom', 'default'):
            try:
                q = copy.deepcopy(saved[lname]).unbundle(self.shared)
            except BaseException as exc:  # noqa: BLE001
                self.viol.append(V('roundtrip-raised', 'roundtrip-raised:shared-context:%s:%s' % (lname, type(exc).__name__),
                                   '%s: loading the bundle saved with the %s loader at %s through a load context used for other bundles before raised %r' % (self.label, lname, point, exc)))
                continue
            self.obs['shared_context_loads'] = self.obs.get('shared_context_loads', 0) + 1
            have = accessors(q)
            if have != want:
                bad = sorted(k for k in set(want) | set(have) if want.get(k) != have.get(k))
                self.viol.append(V('accessor-differs', 'accessor-differs:%s:shared-context:%s' % ('+'.join(bad), lname), '%s: process loaded through a reused load context differs in %s at %s' % (self.label, bad, point)))

    def _at(self, proc, point, saved):
        V = judges.V
        for lname in ('default', 'custom'):
            loader = None if lname == 'default' else c19.CountingLoader()
            sctx = plumpy.LoadSaveContext(loader=loader) if loader else None
            try:
                b1 = plumpy.Bundle(proc, sctx)
                ref = c14.norm(strip(copy.deepcopy(dict(b1))))
            except BaseException as exc:  # noqa: BLE001
                self.viol.append(V('save-raised', 'save-raised:%s:%s:%s' % (point, lname, type(exc).__name__), '%s: saving at %s raised %r' % (self.label, point, exc)))
                return
            saved[lname] = b1
            # the bundle made with dereference=True (what the in-memory persister stores) holds the same saved state, written with
            # the same loader
            try:
                bd = c14.norm(strip(copy.deepcopy(dict(plumpy.Bundle(proc, sctx, dereference=True)))))
                self.obs['dereferenced_bundles'] = self.obs.get('dereferenced_bundles', 0) + 1
                if bd != ref:
                    keys = c14._diffkeys(bd, ref)
                    self.viol.append(V('bundle-differs', 'bundle-differs:%s:%s:%s:dereferenced' % (keys, point, lname), '%s: the bundle made with dereference=True differs from the plain one in %s at %s (%s loader)' % (
                        self.label, keys, point, lname)))
            except BaseException as exc:  # noqa: BLE001
                self.viol.append(V('save-raised', 'save-raised:%s:%s:dereferenced:%s' % (point, lname, type(exc).__name__), '%s: Bundle(..., dereference=True) at %s raised %r' % (self.label, point, exc)))
            if 'stepper_state' in b1:
                self.obs['stepper_states'] += 1
            want = accessors(proc)
            for mname, medium in MEDIA.items():
                sig = '%s:%s:%s' % (point, mname, lname)
                try:
                    carried = medium(b1)
                    lctx = plumpy.LoadSaveContext(loop=self.loop, loader=loader) if loader else plumpy.LoadSaveContext(loop=self.loop)
                    q = carried.unbundle(lctx)
                    b2 = plumpy.Bundle(q, sctx)
                except BaseException as exc:  # noqa: BLE001
                    self.viol.append(V('roundtrip-raised', 'roundtrip-raised:%s:%s' % (sig, type(exc).__name__), '%s: round trip at %s raised %r' % (self.label, sig, exc)))
                    continue
                self.obs['roundtrips'] += 1
                self.obs['medium'][mname] = self.obs['medium'].get(mname, 0) + 1
                self.obs['loader'][lname] = self.obs['loader'].get(lname, 0) + 1
                got = c14.norm(strip(dict(b2)))
                if got != ref:
                    keys = c14._diffkeys(got, ref)
                    self.viol.append(V('bundle-differs', 'bundle-differs:%s:%s' % (keys, sig), '%s: second bundle differs from the first in %s at %s: %r vs %r' % (
                        self.label, keys, sig, {k: got.get(k) for k in keys.split('+')}, {k: ref.get(k) for k in keys.split('+')})))
                have = accessors(q)
                self.obs['accessors_compared'] += len(want)
                if have != want:
                    bad = sorted(k for k in set(want) | set(have) if want.get(k) != have.get(k))
                    self.viol.append(V('accessor-differs', 'accessor-differs:%s:%s' % ('+'.join(bad), sig), '%s: loaded process differs in %s at %s: %r vs original %r' % (
                        self.label, bad, sig, {k: have.get(k) for k in bad}, {k: want.get(k) for k in bad})))


class SaveRun(lifecycle.Run):
    def _make_class(self):
        if self.case.get('nodefaults'):
            return programs.program_class(self.case['program'], InProgNoDefaults)
        return programs.program_class(self.case['program'], InProgCodec if self.case.get('codec') else InProg)

    def _construct(self, cls, loop):
        self.sp = SavePoints(loop, 'process %s' % self.case['name'])
        self.rec.hooks['entered'] = lambda p, frm, to: self.sp.at(p, to)
        pid = self.case['pid']
        if pid == 'uuid':
            pid = uuid.UUID(int=5)
        inputs = self.case['inputs']
        proc = cls(inputs=copy.deepcopy(inputs) if inputs is not None else None, pid=pid, loop=loop)
        # save points between two states too: a subclass may checkpoint itself from its on_run / on_wait / on_finish ... hooks, i.e.
        # after the old state was left and before the new one is entered
        from plumpy.base.state_machine import StateEventHook
        proc.add_state_event_callback(StateEventHook.ENTERING_STATE, lambda sm, _hook, state: self.sp.at(sm, 'entering'))
        return proc

    def apply(self, act, via='slot', plan_idx=None):
        entry = super().apply(act, via, plan_idx)
        if self.proc.paused and act[0] == 'pause' and not self.proc.has_terminated():
            self.sp.at(self.proc, 'paused')
        elif act[0] in ('cancel_future', 'kill', 'fail', 'resume', 'abort_task') and via != 'drain':
            # a save taken right after a request, before the loop has run anything on its behalf
            self.sp.at(self.proc, 'after-' + act[0])
        return entry

    def _pump(self):
        ok = super()._pump()
        if ok:
            # every quiescent point is a save point too (in particular the one after a termination has completed)
            self.sp.at(self.proc, 'q-' + self.proc.state.value)
        return ok

    def sample(self, where):
        super().sample(where)
        # a pause requested mid-step takes effect later: catch the paused point when it is first observed
        if self.proc.paused and not getattr(self, '_paused_seen', False) and not self.proc.has_terminated():
            self._paused_seen = True
            self.sp.at(self.proc, 'paused')
        if not self.proc.paused:
            self._paused_seen = False


def run_case(case):
    if case['kind'] == 'process':
        run = SaveRun(dict(case, drain=True, listener=False))
        run.execute()
        sp = run.sp
        incon = run.inconclusive
    else:
        cls = outlines.outline_class(case['ast'])
        incon = None
        with Driver(6000) as drv:
            sp = SavePoints(drv.loop, 'outline')
            rec = programs.Recorder()
            rec.hooks['entered'] = lambda p, frm, to: sp.at(p, to)
            programs.CURRENT_REC = rec
            try:
                pid = uuid.UUID(int=6) if case['pid'] == 'uuid' else case['pid']
                wc = cls(inputs={'preds': list(case['preds']), 'rets': list(case['rets']), 'emit': True}, pid=pid, loop=drv.loop)
            finally:
                programs.CURRENT_REC = None
            drv.loop.create_task(wc.step_until_terminated())
            try:
                drv.pump()
            except BudgetExceeded:
                incon = 'budget'
    obs = sp.obs
    obs['kinds'] = {case['kind']: 1}
    obs['codec_processes'] = int(bool(case.get('codec')))
    res = {'viol': judges._dedupe(sp.viol), 'obs': obs, 'inconclusive': incon, 'key': case, 'nontrivial': obs['roundtrips'] > 6}
    res['sample'] = {'kind': case['kind'], 'what': case.get('name') or 'outline', 'plan': case.get('plan'), 'pid': case['pid'], 'save_points': obs['points'],
                     'roundtrips': obs['roundtrips']}
    return res
