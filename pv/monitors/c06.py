"""C06 -- a wake-up is never lost to a concurrent pause or interruption."""
import itertools

from pv import judges, lifecycle, plans, programs, wcprog

ID = 'C06'
TITLE = 'wake-up never lost'
ANCHORS = ['plumpy.process_states:Waiting.resume', 'plumpy.processes:Process.resume', 'plumpy.process_states:Waiting.interrupt', 'plumpy.process_states:Waiting.execute', 'plumpy.workchains:Waiting._awaitable_done', 'plumpy.workchains:Waiting.enter']
LEVEL = 'exploration'
TECHNIQUE = ('runtime monitoring: bounded-progress monitor at event-loop quiescence (after every wake-up was delivered and a final play, the '
             'process must have left the wait), plus continuation-argument and context checks, under enumerated wake-up / pause / play placements')
RULE = ('(a) process programs with waits x sequences of K<=3 (thorough 4) of {pause, play, resume(v), resume()} at every slot; (b) workchains '
        'awaiting 1-3 futures/children x every completion order x placements relative to K<=2 (thorough 3) pause/play requests; "never stays '
        'WAITING forever" is decided as bounded progress to the next quiescent point of a timer-free loop; distinct by (program, plan); '
        'non-trivial when a wake-up and a pause/play were both delivered')
RULE += ('; also: failing wake-ups (the failure is the wake-up), kills requested and withdrawn around the wake-up, the stepping task cancelled while blocked in the wait and restarted before / after the wake-up')
ASSUMPTIONS = ['liveness restated as bounded progress at quiescence (deterministic single-threaded loop, no timers)',
               'first accepted resume(v) of a wait defines the expected continuation argument']
REQUIRED = ['wc_stepping_task_cancelled', 'stepping_task_cancelled_while_paused', 'stepping_task_cancelled_in_wait', 'kill_withdrawn_runs', 'wakeups', 'pause_or_play', 'quiescence_checks', 'wakeup_phase/pausing', 'wakeup_phase/paused', 'wc_runs', 'plain_runs', 'continuations_checked']
BOUNDS = {'quick': 'plain: 5 wait programs, K<=3 (K=3 sampled); workchains: n<=2 awaitables exhaustive grid, n=3 sampled',
          'thorough': 'plain K<=4 sampled wider, 20 random wait programs; workchains n<=3, K<=3 pause/play'}
ALPHA_PLAIN = [['pause', 'p'], ['play'], ['resume', ['v']], ['resume', None]]
ALPHA_PP = [['pause', 'p'], ['play']]


def _wc_programs():
    P = {}
    P['f1'] = {'steps': [{'reg': [['a', 0, 'fut', 'ret']], 'ret': None}, {'reg': [], 'ret': 'r'}]}
    P['f2'] = {'steps': [{'reg': [['a', 0, 'fut', 'ret'], ['b', 1, 'fut', 'call']], 'ret': None}, {'reg': [], 'ret': None}]}
    P['f1c1'] = {'steps': [{'reg': [['a', 0, 'fut', 'call'], ['b', 1, 'child', 'ret']], 'ret': None}, {'reg': [], 'ret': None}]}
    P['f3'] = {'steps': [{'reg': [['a', 0, 'fut', 'ret'], ['b', 1, 'fut', 'ret'], ['c', 2, 'fut', 'call']], 'ret': None}, {'reg': [], 'ret': None}]}
    P['two_waits'] = {'steps': [{'reg': [['a', 0, 'fut', 'ret']], 'ret': None}, {'reg': [['b', 1, 'fut', 'call']], 'ret': None}, {'reg': [], 'ret': 1}]}
    P['c2'] = {'steps': [{'reg': [['a', 0, 'child', 'ret'], ['b', 1, 'child', 'call']], 'ret': None}, {'reg': [], 'ret': None}]}
    # the awaitables of a wait command the step builds itself: a child in there as the process and as its future at once
    P['wait_both'] = {'steps': [{'pre': [1], 'reg': [['p', 1, 'oldchild', 'wait'], ['f', 1, 'oldchild', 'wait-fut'], ['g', 1, 'oldchild', 'wait-fut'], ['a', 0, 'fut', 'wait']], 'ret': None},
                                {'reg': [], 'ret': None}]}
    P['wait_both2'] = {'steps': [{'pre': [0], 'reg': [['f', 0, 'oldchild', 'wait-fut'], ['p', 0, 'oldchild', 'wait']], 'ret': None}, {'reg': [], 'ret': 2}]}
    return P


def gen_cases(tier, seed):
    rng = plans.rng_for(seed, 'c06')
    # (a) plain processes with waits
    progs = {k: v for k, v in programs.basic_programs().items() if programs.count_waits(v)}
    if tier == 'thorough':
        n = 0
        while n < 20:
            p = programs.random_program(rng, 5, allow_fail=False)
            if programs.count_waits(p):
                progs['rnd%d' % n] = p
                n += 1
    for name, prog in sorted(progs.items()):
        ns = plans.slots_of(prog)
        plist = []
        for k in (1, 2):
            plist += [p for p in plans.all_placements(ns, ALPHA_PLAIN, k) if any(e['act'][0] == 'resume' for e in p)]
        plist += [p for p in plans.sampled_placements(rng, ns, ALPHA_PLAIN, 3, 400 if tier == 'quick' else 3000)]
        if tier == 'thorough':
            plist += [p for p in plans.sampled_placements(rng, ns, ALPHA_PLAIN, 4, 2000)]
        # a kill requested and withdrawn again by its requester (the future it got is cancelled) before it is carried out: the
        # process lives on, and a wake-up before, between or after the two must still arrive
        for s0 in range(0, ns + 1):
            kw = [{'at': s0, 'act': ['kill', 'k']}, {'at': s0, 'act': ['cancel_ret', 'kill']}]
            for s1 in range(s0, min(ns, s0 + 2) + 1):
                plist.append(kw + [{'at': s1, 'act': ['resume', ['late']]}])
            plist.append([kw[0], {'at': s0, 'act': ['resume', ['between']]}, kw[1]])
            plist.append([{'at': s0, 'act': ['resume', ['before']]}] + kw)
        # whoever drives the process gives up (the stepping task is cancelled, e.g. by a timeout around step_until_terminated) and
        # a new stepping task is started later: a wake-up before, between or after the two is not lost
        for s0 in range(0, ns + 1):
            ab = [{'at': s0, 'act': ['abort_task']}, {'at': 'q', 'act': ['restart_task']}]
            plist.append(ab + [{'at': 'q', 'act': ['resume', ['after-restart']]}])
            plist.append([ab[0], {'at': 'q', 'act': ['resume', ['while-undriven']]}, ab[1]])
            plist.append([{'at': s0, 'act': ['pause', 'p']}] + ab + [{'at': 'q', 'act': ['resume', ['paused']]}, {'at': 'q', 'act': ['play']}])
            # the wake-up and the cancellation of the stepping task in the same loop iteration (the value is in the wait when the
            # cancellation is delivered), optionally after a pause
            plist.append([{'at': s0, 'act': ['resume', ['with-cancel']]}, ab[0], ab[1]])
            # ... and the other way round: the task is cancelled and, before that cancellation is delivered, the wake-up arrives
            plist.append([ab[0], {'at': s0, 'act': ['resume', ['after-cancel']]}, ab[1]])
            plist.append([{'at': s0, 'act': ['pause', 'p']}, {'at': s0, 'act': ['resume', ['with-cancel']]}, ab[0], ab[1], {'at': 'q', 'act': ['play']}])
            # a wake-up and a pause before the stepping task wakes up (the pause is carried out together with the move to the
            # continuation), and an observer that plays during that move
            for k in (1, 2):
                plist.append([{'at': s0, 'act': ['resume', ['then-pause']]}, {'at': s0, 'act': ['pause', 'p']}, {'at': ['listener', 'running', k], 'act': ['play']}])
        # the instance is lost while the process waits (or is paused in its wait) and the process goes on in one recreated from a
        # checkpoint taken there: the wake-up that arrives afterwards is delivered to it
        QQ = lambda *acts: [{'at': 'q', 'act': list(a)} for a in acts]  # noqa: E731
        plist += [QQ(['reincarnate'], ['resume', ['new-instance']]), QQ(['pause', 'p'], ['reincarnate'], ['resume', ['new-instance']], ['play']),
                  QQ(['pause', 'p'], ['reincarnate'], ['play'], ['resume', ['new-instance']]), QQ(['reincarnate'], ['reincarnate'], ['resume', ['new-instance']])]
        # ... written by whoever gave up stepping the paused process, before the cancellation of the stepping task was delivered
        for s0 in range(0, ns + 1):
            plist.append([{'at': s0, 'act': ['pause', 'p']}, {'at': 'q', 'act': ['abort_task']}, {'at': 'q+', 'act': ['reincarnate']},
                          {'at': 'q', 'act': ['resume', ['new-instance']]}, {'at': 'q', 'act': ['play']}])
        # the wake-up value is None (a value like any other: the continuation is called with it, not without an argument)
        for s0 in range(0, ns + 1):
            plist.append([{'at': s0, 'act': ['resume', [None]]}])
            plist.append([{'at': s0, 'act': ['pause', 'p']}, {'at': 'q', 'act': ['resume', [None]]}, {'at': 'q', 'act': ['play']}])
        # the stepping task of a paused process is cancelled and the process is played before that cancellation is delivered
        for s0 in range(0, ns + 1):
            plist.append([{'at': s0, 'act': ['pause', 'p']}, {'at': 'q', 'act': ['resume', ['while-paused']]}, {'at': 'q', 'act': ['abort_task']}, {'at': 'q+', 'act': ['play']},
                          {'at': 'q', 'act': ['restart_task']}])
            plist.append([{'at': s0, 'act': ['pause', 'p']}, {'at': 'q', 'act': ['abort_task']}, {'at': 'q+', 'act': ['play']}, {'at': 'q', 'act': ['restart_task']},
                          {'at': 'q', 'act': ['resume', ['after']]}])
        # a burst of requests around one wake-up inside a single loop iteration, before the stepping task has woken up: paused, woken,
        # played and paused again (each interruption re-arms the wait; what a re-armed wait has been given stays in it)
        for s0 in range(0, ns + 1):
            A = lambda *acts: [{'at': s0, 'act': list(a)} for a in acts]  # noqa: E731
            plist.append(A(['pause', 'p1'], ['resume', ['burst']], ['play'], ['pause', 'p2']) + [{'at': 'q', 'act': ['play']}])
            plist.append(A(['pause', 'p1'], ['resume', ['burst']], ['pause', 'p2'], ['play']))
            plist.append(A(['resume', ['burst']], ['pause', 'p1'], ['play'], ['pause', 'p2']) + [{'at': 'q', 'act': ['play']}])
            plist.append(A(['pause', 'p1'], ['play'], ['resume', ['burst']], ['pause', 'p2'], ['play']))
        # an observer that pauses the process when it is told that it waits (the pause is requested inside the move into the wait)
        for k in (1, 2):
            plist.append([{'at': ['listener', 'waiting', k], 'act': ['pause', 'p']}])
            plist.append([{'at': ['listener', 'waiting', k], 'act': ['pause', 'p']}, {'at': 'q', 'act': ['resume', ['while-paused']]}, {'at': 'q', 'act': ['play']}])
            plist.append([{'at': ['listener', 'waiting', k], 'act': ['pause', 'p']}, {'at': 'q', 'act': ['play']}, {'at': 'q', 'act': ['resume', ['after-play']]}])
        for i, plan in enumerate(plist):
            yield {'kind': 'plain', 'name': name, 'program': prog, 'plan': plans.uniq(plan, 'q%d' % i), 'drain': True, 'listener': True}
        # the same with a WAITING state class of the application's own (a subclass of the library's, plugged in with get_state_classes)
        own = [p for p in plist if not any(e['act'][0] == 'reincarnate' for e in p)]
        for i, plan in enumerate(own[:120] + own[-60:]):
            yield {'kind': 'plain', 'name': name, 'program': prog, 'plan': plans.uniq(plan, 'o%d' % i), 'drain': True, 'listener': True, 'own_waiting_state': True}
    # (b) workchains
    for name, prog in sorted(_wc_programs().items()):
        items = []
        for st in prog['steps']:
            for _k, idx, kind, _h in st['reg']:
                if (idx, kind) not in items:  # (the same awaitable may be handed over under several keys)
                    items.append((idx, kind))
        ref = wcprog.run_case({'program': prog, 'plan': [], 'drain': True})
        ns = ref['slots'] + 1
        wake = [(['complete', idx, ['value', 'v%d' % idx]] if kind == 'fut' else ['child', idx, 'resume']) for idx, kind in items]
        cases = []
        # every awaited item succeeds, or exactly one of them fails (the wake-up then is the failure: the workchain must not keep waiting)
        wakes = [wake]
        for j, (idx, kind) in enumerate(items):
            failing = list(wake)
            failing[j] = ['complete', idx, ['exc', 'e%d' % idx]] if kind == 'fut' else ['child', idx, 'fail']
            wakes.append(failing)
        for perm in itertools.chain.from_iterable(itertools.permutations(w) for w in wakes):
            for kpp in range(0, (3 if tier == 'quick' else 4)):
                for pp in itertools.product(ALPHA_PP, repeat=kpp):
                    acts = list(perm) + [list(a) for a in pp]
                    k = len(acts)
                    allpos = list(itertools.product(range(0, ns + 1), repeat=k))
                    limit = 40 if tier == 'quick' else 250
                    if len(allpos) > limit:
                        allpos = [allpos[rng.randrange(len(allpos))] for _ in range(limit)]
                    for pos in allpos:
                        order = sorted(range(k), key=lambda j: (pos[j], j))
                        # keep the relative order of the wake-ups as in perm
                        plan = [{'at': pos[j], 'act': acts[j]} for j in order]
                        cases.append({'kind': 'wc', 'name': name, 'program': prog, 'plan': plans.uniq(plan, 'w'), 'drain': True, 'listener': True})
        cap = 4000 if tier == 'quick' else 60000
        if len(cases) > cap:
            cases = rng.sample(cases, cap)
        # the task stepping the workchain is cancelled and, in the same loop iteration, an awaited item completes (before / after the
        # cancellation); a new stepping task is started afterwards and the other items complete
        for s in range(0, ns + 1):
            for first_wake in (True, False):
                head = [{'at': s, 'act': list(wake[0])}, {'at': s, 'act': ['abort_task']}] if first_wake else [{'at': s, 'act': ['abort_task']}, {'at': s, 'act': list(wake[0])}]
                plan = head + [{'at': 'q', 'act': ['restart_task']}] + [{'at': 'q', 'act': list(w)} for w in wake[1:]]
                cases.append({'kind': 'wc', 'name': name, 'program': prog, 'plan': plans.uniq(plan, 'wa'), 'drain': True, 'listener': True, 'aborting': True})
        for c in cases:
            yield c


def run_case(case):
    obs = {'wakeups': 0, 'pause_or_play': 0, 'quiescence_checks': 0, 'wakeup_phase': {}, 'wc_runs': 0, 'plain_runs': 0,
           'continuations_checked': 0, 'loop_errors': 0}
    if case['kind'] == 'plain':
        rec = lifecycle.run_case(case)
        viol = [v for v in judges.judge_trace(rec, 'C06')] if rec.get('inconclusive') is None else []
        if any(e['act'][0] == 'kill' for e in case['plan']):
            fin = rec['final'] or {}
            km = fin.get('killed_msg') or [None, None]
            withdrawn_in_time = any(a['kind'] == 'cancel_ret' and a['ret'] == ['value', True] for a in rec['acts'])
            if fin.get('state') == 'killed' and km[0] == 'ok' and (km[1] or {}).get('message') in [e['act'][1] for e in case['plan'] if e['act'][0] == 'kill']:
                if withdrawn_in_time and sum(1 for e in case['plan'] if e['act'][0] == 'kill') == 1:
                    # the future kill() handed back was still pending when its requester cancelled it (the cancellation was accepted):
                    # that kill is off -- the process lives on and the wake-up is owed to it
                    viol = [judges.V('wakeup-lost', 'withdrawn-kill-carried-out:%s' % '>'.join(judges.act_pattern(rec, plan_only=True)),
                                     'the kill was withdrawn by its requester while it was still pending (cancel() answered True), yet the process ended KILLED '
                                     'with that text: the wake-up that followed went to a dead process')]
                    obs['kill_withdrawn_runs'] = 1
                else:
                    # the kill was carried out before its requester withdrew it: no wake-up is owed to a killed process
                    viol = []
                    obs['kill_carried_out'] = 1
            else:
                obs['kill_withdrawn_runs'] = 1
        if any(e['act'][0] == 'abort_task' for e in case['plan']):
            ab = next((a for a in rec['acts'] if a['kind'] == 'abort_task'), None)
            blocked_in_wait = ab is not None and ab['phase'].startswith('waiting/stepping') and 'paus' not in ab['phase']
            blocked_paused = ab is not None and ab['phase'].endswith('/paused') and 'stepping' not in ab['phase']
            if blocked_paused:
                obs['stepping_task_cancelled_while_paused'] = 1
            if ab is not None and 'unstarted' in ab['phase']:
                blocked_paused = False  # (the cancelled task had not started: nothing of the process was involved)
            if (blocked_in_wait or blocked_paused) and any(a['kind'] == 'restart_task' and a['via'] == 'drain' for a in rec['acts']):
                # the stepping task started by the plan ended although the process had not terminated and nobody cancelled it: the
                # harness had to start another one to bring the run to its end
                viol.append(judges.V('wakeup-lost', 'stepping-task-died:%s' % ab['phase'], 'the stepping task started after the first one was cancelled (%s) '
                                     'died without the process having terminated; the process only went on because the harness started a third one' % ab['phase']))
            if not (blocked_in_wait or blocked_paused):
                # the task was not blocked in the wait when it was cancelled (a step cancelled half way is run again: not a matter
                # of wake-ups)
                viol = []
                obs['abort_elsewhere'] = 1
            elif blocked_in_wait:
                obs['stepping_task_cancelled_in_wait'] = 1
        obs['plain_runs'] = 1
        obs['continuations_checked'] = sum(1 for e in rec['events'] if e[0] == 'trace' and e[1] == 'enter')
        wk = ('resume',)
    else:
        rec = wcprog.run_case(case)
        viol = judges.judge_c06_wc(rec) + judges.judge_c10(rec)
        obs['wc_runs'] = 1
        obs['wc_stepping_task_cancelled'] = int(bool(case.get('aborting')))
        obs['continuations_checked'] = sum(len(e[5]) for e in rec['events'] if e[0] == 'trace' and e[1] == 'enter')
        wk = ('complete', 'child')
    for v in viol:
        if v['kind'] == 'run-incomplete':
            v['kind'] = 'wakeup-lost'
    nw = npp = 0
    for a in rec['acts']:
        if a['kind'] in wk and a['live_before']:
            obs['wakeups'] += 1
            nw += 1
            for ph in a['phase'].split('/')[1:]:
                obs['wakeup_phase'][ph] = obs['wakeup_phase'].get(ph, 0) + 1
        if a['kind'] in ('pause', 'play') and a['live_before'] and a['via'] != 'drain':
            obs['pause_or_play'] += 1
            npp += 1
    obs['quiescence_checks'] = len(rec['qpoints'])
    obs['loop_errors'] = len(rec['loop_errors'] or ())
    res = {'viol': viol, 'obs': obs, 'inconclusive': rec['inconclusive'], 'key': [case['kind'], case['name'], case['plan']],
           'nontrivial': nw > 0 and npp > 0}
    res['sample'] = {'kind': case['kind'], 'program': case['name'], 'plan': case['plan'], 'final_state': rec['final']['state'] if rec['final'] else None,
                     'stuck': rec['stuck'], 'acts': [[a['kind'], a['arg'], a['phase'], a['ret']] for a in rec['acts']],
                     'loop_errors': rec['loop_errors']}
    return res
