"""C09 -- a WorkChain executes its outline as the structured program it denotes."""
import asyncio
import itertools

from pv import judges, outlines, plans
from pv.driver import BudgetExceeded, Driver
from pv.programs import _jsonable

ID = 'C09'
TITLE = 'outline execution order and result'
ANCHORS = ['plumpy.workchains:WorkChain._do_step', 'plumpy.workchains:_BlockStepper.step', 'plumpy.workchains:_IfStepper.step', 'plumpy.workchains:_WhileStepper.step', 'plumpy.workchains:_ReturnStepper.step', 'plumpy.workchains:WorkChainSpec.outline']
LEVEL = 'exploration'
TECHNIQUE = ('runtime monitoring against a reference interpreter: generated WorkChains record every step and predicate call; the ordered trace and '
             'the result are compared with an independent recursive interpreter of the outline AST')
RULE = ('quick: every outline AST with <=4 nodes and nesting <=2 over {step, if/elif/else, while, return_(None|0|5)} x every predicate script of '
        'length <=4 x step-return scripts (all None; one stopping value from {0, "", False, 7} at each of the first 3 steps), de-duplicated by '
        'the script prefix actually consumed (exhaustive for that scope); thorough adds 5-node ASTs (sampled) and random ASTs to depth 4 with '
        'scripts to length 12; non-trivial when at least one predicate or >=2 calls were made')
RULE += ('; also: steps that register awaitables, a description of the outline asked for first, decorated step functions, chains with a required output nobody emits')
ASSUMPTIONS = ['predicates return real booleans', 'ToContext returns are C10\'s business', 'interpreter written from the property statement']
REQUIRED = ['derived_from_a_used_class', 'runs', 'ended/return', 'ended/value', 'ended/end', 'nodes/if', 'nodes/while', 'nodes/ret', 'calls_compared', 'falsy_stop_values', 'steps_registering_awaitables', 'value_with_awaitable', 'described_first', 'required_output_missing', 'decorated_steps_called', 'non_bool_predicates', 'outline_names_base_functions', 'empty_context_assignments', 'awaitable_stop_values', 'mapping_stop_values', 'one_predicate_for_a_chain']
EXHAUSTIVE = {'quick': True, 'thorough': False}
BOUNDS = {'quick': 'ASTs <=4 nodes depth<=2, predicate scripts <=4, exhaustive after de-duplication', 'thorough': '+5-node ASTs sampled, 4000 random ASTs depth<=4'}
STOPVALS = [0, '', False, 7]
SHARE_CASES = True  # the de-duplicated enumeration is done once by the main process


def _scripts(maxp):
    preds = [list(p) for n in range(0, maxp + 1) for p in itertools.product([True, False], repeat=n)]
    rets = [[]]
    for j in range(3):
        for v in STOPVALS:
            rets.append([None] * j + [v])
    return preds, rets


def gen_cases(tier, seed):
    rng = plans.rng_for(seed, 'c09')
    preds, rets = _scripts(4)
    seen = set()
    sizes = [1, 2, 3, 4]
    for size in sizes:
        for shape in outlines.shapes(size, 2):
            ast = outlines.name_shape(shape)
            for p in preds:
                for r in rets:
                    trace, _res, how = outlines.interpret(ast, p, r, max_calls=60)
                    if how == 'budget':
                        continue
                    np = sum(1 for t in trace if t.startswith('p'))
                    ns = sum(1 for t in trace if t.startswith('s'))
                    key = (str(ast), tuple(p[:np]), tuple(map(repr, r[:ns])))
                    if key in seen:
                        continue
                    seen.add(key)
                    yield {'ast': ast, 'preds': p[:np] if np <= len(p) else p, 'rets': r[:ns], 'describe': len(seen) % 5 == 0}
                    if how == 'value' or len(seen) % 8 == 0:
                        # the same run with every step also registering an awaitable through to_context()
                        yield {'ast': ast, 'preds': p[:np] if np <= len(p) else p, 'rets': r[:ns], 'awaits': True}
                    if np and len(seen) % 3 == 2:
                        # the same run with predicates that answer with a list / string / object instead of a bool
                        yield {'ast': ast, 'preds': p[:np] if np <= len(p) else p, 'rets': r[:ns], 'pred_style': 'containers' if len(seen) % 2 else 'objects'}
                    if ns and None in r[:ns] and len(seen) % 6 == 4:
                        # the same run with one of the steps returning an EMPTY context assignment instead of None
                        r2 = list(r[:ns])
                        r2[r2.index(None)] = '@TC0'
                        yield {'ast': ast, 'preds': p[:np] if np <= len(p) else p, 'rets': r2, 'empty_tc': True}
                    if how == 'value' and len(seen) % 2 == 0:
                        # the same run with the value that stops the chain being an awaitable object
                        yield {'ast': ast, 'preds': p[:np] if np <= len(p) else p, 'rets': list(r[:ns - 1]) + [('@AW', '@MAP0', '@MAP1')[(len(seen) // 2) % 3]], 'awaitable_value': True}
                    if np >= 2 and len(seen) % 3 == 1 and _has_elif(ast):
                        # the same run with ONE predicate function guarding every branch of an if_/elif_ chain (it is asked once per
                        # conditional it guards, and may answer differently each time)
                        yield {'ast': _same_pred(ast), 'preds': p[:np] if np <= len(p) else p, 'rets': r[:ns], 'same_predicate': True}
                    if ns and len(seen) % 5 == 3:
                        # the same run in a subclass that overrides some of the steps while the outline names the base class's functions
                        yield {'ast': ast, 'preds': p[:np] if np <= len(p) else p, 'rets': r[:ns], 'shadowed': True}
                    if len(seen) % 7 == 5:
                        # the same run in a class derived from a concrete work chain class that was instantiated and run before
                        yield {'ast': ast, 'preds': p[:np] if np <= len(p) else p, 'rets': r[:ns], 'derived': True}
                    if len(seen) % 4 == 1:
                        # the same run in a chain that declares a required output nobody emits: unsuccessful, same result
                        yield {'ast': ast, 'preds': p[:np] if np <= len(p) else p, 'rets': r[:ns], 'must': True}
    if tier == 'thorough':
        shapes5 = outlines.shapes(5, 2)
        for shape in rng.sample(shapes5, 3000):
            ast = outlines.name_shape(shape)
            for _ in range(4):
                p = [rng.random() < 0.6 for _ in range(rng.randint(0, 6))]
                r = [rng.choice([None] * 10 + STOPVALS + ['r']) for _ in range(rng.randint(0, 6))]
                yield {'ast': ast, 'preds': p, 'rets': r, 'awaits': rng.random() < 0.3}
        for _ in range(4000):
            ast = outlines.random_ast(rng, rng.randint(1, 4))
            for _k in range(3):
                p = [rng.random() < 0.55 for _ in range(rng.randint(0, 12))]
                r = [rng.choice([None] * 12 + STOPVALS + ['r']) for _ in range(rng.randint(0, 12))]
                yield {'ast': ast, 'preds': p, 'rets': r, 'awaits': rng.random() < 0.3}


def _has_elif(ast):
    return any((n[0] == 'if' and (len(n[1]) > 1 or any(_has_elif(b) for _p, b in n[1]) or (n[2] is not None and _has_elif(n[2])))) or (n[0] == 'while' and _has_elif(n[2])) for n in ast)


def _same_pred(ast):
    out = []
    for n in ast:
        if n[0] == 'if':
            first = n[1][0][0]
            out.append(['if', [[first, _same_pred(b)] for _p, b in n[1]], _same_pred(n[2]) if n[2] is not None else None])
        elif n[0] == 'while':
            out.append(['while', n[1], _same_pred(n[2])])
        else:
            out.append(list(n))
    return out


def run_case(case):
    ast, preds, rets = case['ast'], case['preds'], case['rets']
    exp_trace, exp_result, how = outlines.interpret(ast, preds, rets)
    obs = {'runs': 1, 'ended': {how: 1}, 'nodes': {}, 'calls_compared': 0, 'falsy_stop_values': 0, 'described_first': 0}
    if how == 'budget':
        return {'viol': [], 'obs': obs, 'inconclusive': 'interpreter-budget', 'key': case, 'nontrivial': False}
    obs['one_predicate_for_a_chain'] = int(bool(case.get('same_predicate')))
    obs['awaitable_stop_values'] = obs['mapping_stop_values'] = 0
    if isinstance(exp_result, str) and exp_result in outlines.SPECIAL_STOPS and how == 'value':
        obs['awaitable_stop_values' if exp_result == '@AW' else 'mapping_stop_values'] = 1
        exp_result = outlines.SPECIAL_STOPS[exp_result]
    if case.get('derived'):
        # (the base class first: created and run to its end in a loop of its own)
        base = outlines.outline_class(outlines.BASE_AST)
        with Driver(2000) as drv0:
            b = base(inputs={'preds': [True], 'rets': []}, loop=drv0.loop)
            drv0.loop.create_task(b.step_until_terminated())
            try:
                drv0.pump()
            except BudgetExceeded:
                pass
        cls = outlines.outline_class(ast, derived=True)
    else:
        cls = outlines.outline_class(ast, must=bool(case.get('must')), shadowed=bool(case.get('shadowed')))
    obs['derived_from_a_used_class'] = int(bool(case.get('derived')))
    obs['outline_names_base_functions'] = int(bool(case.get('shadowed')))
    obs['empty_context_assignments'] = int(bool(case.get('empty_tc')))
    obs['required_output_missing'] = int(bool(case.get('must')))
    obs['non_bool_predicates'] = int(bool(case.get('pred_style')))
    obs['decorated_steps_called'] = sum(1 for t in exp_trace if t in outlines.DECORATED)
    viol = []
    V = judges.V
    if case.get('describe'):
        # asking for the description of the outline (spec / process description, str()) must not change what it does
        cls.spec().get_description()
        str(cls.spec())
        obs['described_first'] = 1
    awaits = bool(case.get('awaits'))
    obs['steps_registering_awaitables'] = int(awaits and any(t.startswith('s') for t in exp_trace))
    obs['value_with_awaitable'] = int(awaits and how == 'value')
    with Driver(5000) as drv:
        wc = cls(inputs={'preds': list(preds), 'rets': list(rets), 'awaits': awaits, 'pred_style': case.get('pred_style')}, loop=drv.loop)
        task = drv.loop.create_task(wc.step_until_terminated())
        incon = None
        try:
            drv.pump()
        except BudgetExceeded:
            incon = 'budget'
        got_trace = list(wc.ctx.get('tr', []))
        state = wc.state.value
        result = wc.result() if state == 'finished' else None
        exc = repr(wc.exception()) if state == 'excepted' else None
        task_done = task.done()
    kinds = _kinds(ast, {})
    for k in kinds:
        obs['nodes'][k] = 1
    obs['calls_compared'] = len(exp_trace)
    if how == 'value' and not exp_result and exp_result is not None:
        obs['falsy_stop_values'] = 1
    shape = _shape(ast)
    if got_trace != exp_trace:
        k = next((i for i, (a, b) in enumerate(zip(got_trace, exp_trace)) if a != b), min(len(got_trace), len(exp_trace)))
        viol.append(V('call-order', 'call-order:%s' % _context(ast, exp_trace, k),
                      'calls %s, expected %s (outline %s, preds %s, rets %s)' % (got_trace, exp_trace, shape, preds, rets)))
    elif state != 'finished':
        viol.append(V('not-finished', 'not-finished:%s' % state, 'workchain ended %s %s (outline %s)' % (state, exc, shape)))
    elif case.get('empty_tc') and how == 'end' and (result is None or (isinstance(result, dict) and not result)):
        pass  # (the chain ran to its end; whether an empty context assignment returned by the very last step counts as "the value" is left open)
    elif _jsonable(result) != _jsonable(exp_result) or type(result) is not type(exp_result):
        viol.append(V('result', 'result:%s:%s' % (how, repr(exp_result)), 'result %r, expected %r by %s (outline %s, preds %s, rets %s)' % (
            result, exp_result, how, shape, preds, rets)))
    elif not task_done:
        viol.append(V('task', 'task-pending', 'stepping task not done'))
    res = {'viol': viol, 'obs': obs, 'inconclusive': incon, 'key': case, 'nontrivial': len(exp_trace) >= 2 or any(t.startswith('p') for t in exp_trace)}
    res['sample'] = {'outline': shape, 'preds': preds, 'rets': _jsonable(rets), 'steps_register_awaitables': awaits, 'calls': got_trace, 'result': _jsonable(result), 'ended_by': how}
    return res


def _kinds(ast, acc):
    for n in ast:
        acc[n[0]] = 1
        if n[0] == 'if':
            for _p, b in n[1]:
                _kinds(b, acc)
            if n[2] is not None:
                acc['else'] = 1
                _kinds(n[2], acc)
            if len(n[1]) > 1:
                acc['elif'] = 1
        elif n[0] == 'while':
            _kinds(n[2], acc)
    return acc


def _shape(ast):
    out = []
    for n in ast:
        if n[0] == 'step':
            out.append(n[1])
        elif n[0] == 'ret':
            out.append('return_(%r)' % (n[1],) if n[1] is not None else 'return_')
        elif n[0] == 'while':
            out.append('while_(%s)(%s)' % (n[1], _shape(n[2])))
        else:
            s = ''
            for i, (p, b) in enumerate(n[1]):
                s += ('if_' if i == 0 else '.elif_') + '(%s)(%s)' % (p, _shape(b))
            if n[2] is not None:
                s += '.else_(%s)' % _shape(n[2])
            out.append(s)
    return ', '.join(out)


def _context(ast, exp_trace, k):
    """Mechanism-level description of where the orders diverge: kind of the expected call and of its predecessor."""
    def kind(name):
        if name is None:
            return 'none'
        if name.startswith('s'):
            return 'step'
        return _pred_kind(ast, name)
    cur = exp_trace[k] if k < len(exp_trace) else None
    prev = exp_trace[k - 1] if k > 0 else None
    return '%s-after-%s' % (kind(cur), kind(prev))


def _pred_kind(ast, name):
    for n in ast:
        if n[0] == 'if':
            for i, (p, b) in enumerate(n[1]):
                if p == name:
                    return 'if' if i == 0 else 'elif'
                r = _pred_kind(b, name)
                if r:
                    return r
            if n[2] is not None:
                r = _pred_kind(n[2], name)
                if r:
                    return r
        elif n[0] == 'while':
            if n[1] == name:
                return 'while'
            r = _pred_kind(n[2], name)
            if r:
                return r
    return None
