"""C17 -- launcher tasks do what they say or are rejected."""
import asyncio
import copy
import logging
import os
import shutil
import tempfile
import weakref

import kiwipy
import uuid

import plumpy
from plumpy import communications, futures, loaders
from plumpy import process_comms as pc
from plumpy import process_states as ps

from pv import comm, generated, judges, plans, programs
from pv.driver import BudgetExceeded, Driver
from pv.monitors import c19
from pv.programs import _jsonable

ID = 'C17'
TITLE = 'ProcessLauncher tasks'
ANCHORS = ['plumpy.process_comms:ProcessLauncher.__call__', 'plumpy.process_comms:ProcessLauncher._launch', 'plumpy.process_comms:ProcessLauncher._continue', 'plumpy.process_comms:ProcessLauncher._create', 'plumpy.loaders:DefaultObjectLoader.identify_object', 'plumpy.loaders:DefaultObjectLoader.load_object']
LEVEL = 'exploration'
TECHNIQUE = ('runtime monitoring of task histories against an executable model of the task semantics: create / launch / continue tasks sent to a real '
             'ProcessLauncher directly and through the real controllers over an in-process communicator; replies, persister content, process '
             'instances created and their traces are compared with the model')
RULE = ('histories of 2-6 tasks from {create(persist), launch(persist, nowait), continue(pid, tag, nowait), unknown task type} x persister {none, '
        'in-memory, pickle, failing-on-save} x loader {default, custom renaming loader, custom + explicit load_context} x route {await the launcher, '
        'RemoteProcessThreadController, RemoteProcessController over LoopCommunicator}, programs with and without waits, succeeding and failing; '
        'checkpoints under a second tag are taken by the harness from a partly run instance; distinct by (config, history); non-trivial when '
        '>=1 task was honoured and the model predicted a reply')
RULE += ('; also: task types resembling launcher attributes, processes failing after recording a result, unpicklable processes, a second launcher on the same persister, tags never saved, a launcher built outside the serving loop')
ASSUMPTIONS = ['the RabbitMQ transport is replaced by the in-process communicator of pv/comm.py', 'errors may arrive wrapped in RemoteException']
REQUIRED = ['background_processes_checked', 'loader/ctx_only', 'log_records_formatted', 'redelivered_after_rejection', 'launcher_loader_of_its_own_class', 'paused_at_start_played', 'unknown_pid_kinds/str', 'unknown_pid_kinds/int', 'unknown_pid_kinds/UUID', 'unsaveable_persist_tasks', 'second_launcher_continues', 'late_failures', 'tasks/create', 'tasks/launch', 'tasks/continue', 'tasks/bogus', 'rejected', 'persisted_checks', 'nowait_replies', 'wait_replies', 'error_replies',
            'route/direct', 'route/thread', 'route/async', 'persister/none', 'persister/mem', 'persister/pickle', 'persister/failing', 'loader/custom',
            'loader/custom_ctx', 'continued_from_tag', 'traces_checked', 'killed_replies', 'launcher_built_elsewhere', 'absent_tag_with_untagged_checkpoint', 'counted_persister']
BOUNDS = {'quick': '400 histories', 'thorough': '6000 histories'}

S = programs.step
PROGS = {
    'plain': {'steps': [S(['cont', [1], {}], yields=1, fx=[(0, ['out', 'o', 1])]), S(['value', 5], sync=True)]},
    'waits': {'steps': [S(['wait', 'w', None], sync=True, fx=[(0, ['out', 'o', 2])]), S(['cont', [], {}], yields=1), S(['value', 6], sync=True)]},
    'fails': {'steps': [S(['cont', [], {}], sync=True), S(['raise', 'task-prog-fails'], yields=1)]},
    'fails_key': {'steps': [S(['cont', [], {}], sync=True), S(['raise', 'key:task-prog-fails'], yields=1)]},  # fails with a KeyError of its own
    # records its outputs and result, then fails in the hook called after FINISHED was entered: ends EXCEPTED
    'unpicklable': {'steps': [S(['cont', [1], {}], yields=1, fx=[(0, ['out', 'o', 1])]), S(['value', 5], sync=True)], 'unpicklable': True},
    # pauses itself when it is initialised (it waits for a go-ahead): launched without waiting, its id is the reply all the same
    'pausedstart': {'steps': [S(['cont', [1], {}], yields=1, fx=[(0, ['out', 'o', 1])]), S(['value', 5], sync=True)], 'paused_start': True},
    # its steps hand callbacks to the process (``call_soon``): a continued process needs its loop for that as much as a launched one
    'schedules': {'steps': [S(['cont', [1], {}], yields=1, fx=[(0, ['out', 'o', 1]), (1, ['soon', 'ok', 'c0'])]), S(['value', 5], yields=1, fx=[(0, ['soon', 'ok', 'c1'])])]},
    'latefail': {'steps': [S(['cont', [2], {}], yields=1, fx=[(0, ['out', 'o', 3])]), S(['value', 7], sync=True)], 'late_fail': True},
}


@plumpy.auto_persist('hook')
class Unpicklable(programs.ProgBase):
    """Holds a persisted member that can be copied but not pickled: the pickle persister cannot save it, the in-memory one can."""

    def __init__(self, *args, **kwargs):
        super().__init__(*args, **kwargs)
        self.hook = lambda: None


class PausedStart(programs.ProgBase):
    def init(self):
        super().init()
        if not self.has_terminated():
            self.pause('waiting for the go-ahead')


generated.register(PausedStart, 'PausedStart')


class LateFail(programs.ProgBase):
    def on_finished(self):
        super().on_finished()
        raise programs.ProgError('task-prog-fails-late')


generated.register(LateFail, 'LateFail')
generated.register(Unpicklable, 'Unpicklable')


class LauncherSideCounts:
    """Mixed into the loader class the *launcher* is configured with where the persister has a loader of another (its base) class: the
    launcher's own loader is the one its tasks are loaded through, whatever class the checkpoint records."""
    consulted = 0

    def load_object(self, identifier):
        LauncherSideCounts.consulted += 1
        return super().load_object(identifier)


class CountedPersister(plumpy.InMemoryPersister):
    """A persister that can say how many checkpoints it holds (so an empty one is falsy, like any empty container)."""

    def __len__(self):
        return len(self.get_checkpoints())


class FailingPersister(plumpy.InMemoryPersister):
    def save_checkpoint(self, process, tag=None):
        raise plumpy.PersistenceError('cannot save')


def gen_cases(tier, seed):
    rng = plans.rng_for(seed, 'c17')
    n = 400 if tier == 'quick' else 6000
    for i in range(n):
        persister = ['none', 'mem', 'pickle', 'failing', 'mem', 'pickle'][i % 6]
        # ('ctx_only': the launcher is given its loader through the load context alone, no loader argument)
        loader = ['default', 'custom', 'custom_ctx', 'custom_split', 'ctx_only'][(i // 6) % 5]
        route = ['direct', 'thread', 'async'][(i // 30) % 3]
        hist = []
        created = 0
        for _ in range(rng.randint(2, 6)):
            r = rng.random()
            prog = rng.choice(sorted(PROGS))
            if prog == 'pausedstart' and not r < 0.55:
                prog = 'plain'
            if r < 0.3 and prog == 'pausedstart':
                r = 0.4  # (only ever launched, not waited for and not persisted)
            if r < 0.3:
                hist.append(['create', prog, rng.random() < 0.7])
                created += 1
            elif r < 0.55:
                op = ['launch', prog, rng.random() < 0.5, rng.random() < 0.5]
                if prog == 'pausedstart':
                    op = ['launch', prog, False, True]
                if prog == 'waits' and not op[3] and rng.random() < 0.5:
                    op.append('kill')  # the process is killed while the (waited) task waits for it
                hist.append(op)
                created += 1
            elif r < 0.9:
                ref = rng.randrange(created) if created and rng.random() < 0.85 else 'unknown'
                # (tag 'gone': a tag under which nothing was ever saved, while the untagged checkpoint of the process may well exist)
                op = ['continue', ref, rng.choice([None, None, 't', 't', 'gone']), rng.random() < 0.5]
                if not op[3] and rng.random() < 0.3:
                    op.append('kill')
                hist.append(op)
            else:
                hist.append(['bogus', rng.choice(BOGUS)])
        # the launcher object is usually built inside the loop that serves it; it may as well be built beforehand, while another loop
        # (or none of its own) is the thread's current one and without naming a loop
        yield {'persister': persister, 'loader': loader, 'route': route, 'history': hist, 'built': 'elsewhere' if i % 5 == 2 else 'in-loop',
               'counted': persister == 'mem' and i % 12 < 6}


#: unknown task types, among them names that resemble the known ones or attributes of the launcher object
BOGUS = ['no-such-task', 'LAUNCH', 'launch ', 'Launch', '_launch', 'kill', 'pause', '', 'persister', 'loader', 'load_context', 'loop', '_call__', '_init__',
         '_class__', '_dict__', '_repr__', 'continue_', 'create_', 0, None]


def _reply(fut):
    if not fut.done():
        return ['pending']
    if fut.cancelled():
        return ['cancelled']
    exc = fut.exception()
    if exc is not None:
        e = exc
        for _ in range(5):
            if isinstance(e, kiwipy.TaskRejected):
                return ['rejected']
            if isinstance(e, programs.ProgError):
                return ['error', 'ProgError', e.tag]
            nxt = e.__cause__ or e.__context__
            if nxt is None:
                break
            e = nxt
        if 'TaskRejected' in repr(exc):
            return ['rejected']
        if 'ProgError' in repr(exc):
            return ['error', 'ProgError', 'task-prog-fails' if 'task-prog-fails' in repr(exc) else '?']
        return ['error', type(e).__name__, str(e)[:80]]
    return ['result', _jsonable(fut.result())]


class BackgroundWaiter(plumpy.Process):
    """Waits until it is resumed.  Nothing of the harness refers to its instances (they are found through a weak set)."""
    instances = weakref.WeakSet()

    def __init__(self, *args, **kwargs):
        super().__init__(*args, **kwargs)
        BackgroundWaiter.instances.add(self)

    def run(self):
        return plumpy.Wait(self.done)

    def done(self, *args):
        return 5


generated.register(BackgroundWaiter, 'BackgroundWaiter')


class _StrictLogHandler(logging.Handler):
    def __init__(self):
        super().__init__(level=logging.DEBUG)
        self.seen = 0

    def emit(self, record):
        record.getMessage()  # (raises when the arguments do not fit the format)
        self.seen += 1


def run_case(case):
    V = judges.V
    obs = {'counted_persister': int(bool(case.get('counted'))), 'tasks': {}, 'rejected': 0, 'persisted_checks': 0, 'nowait_replies': 0, 'wait_replies': 0, 'error_replies': 0, 'route': {case['route']: 1},
           'persister': {case['persister']: 1}, 'loader': {case['loader']: 1}, 'continued_from_tag': 0, 'traces_checked': 0, 'custom_loads': 0, 'bogus_names': {}}
    viol = []
    workdir = tempfile.mkdtemp(prefix='c17-[a]?-', dir=os.environ.get('PV_WORK') or None)
    loaders.set_object_loader(None)
    c19.CountingLoader.loads = 0
    label = '%s/%s/%s' % (case['persister'], case['loader'], case['route'])
    # the application has a log handler that does not swallow formatting errors (pytest's capturing handler is one): a log call of the
    # launcher whose arguments do not fit its format then fails the task it was made for
    strict = _StrictLogHandler()
    logging.getLogger('plumpy').addHandler(strict)
    logging.disable(logging.NOTSET)  # (the harness runs with logging switched off otherwise)
    try:
        with Driver(30000) as drv:
            loop = drv.loop
            # the in-memory persister writes with the configured loader, so a strict loader (own identifier scheme) works; the pickle
            # persister cannot be given one and writes default identifiers, which the configured loader then has to understand
            loader = None
            if case['loader'] not in ('default', 'ctx_only'):
                loader = c19.LenientCountingLoader() if case['persister'] == 'pickle' else c19.CountingLoader()
            persister = {'none': lambda: None, 'mem': lambda: (CountedPersister if case.get('counted') else plumpy.InMemoryPersister)(loader), 'pickle': lambda: plumpy.PicklePersister(workdir),
                         'failing': lambda: FailingPersister(loader)}[case['persister']]()
            kwargs = {'loop': loop, 'persister': persister, 'loader': loader}
            if case['loader'] == 'custom_split':
                # the launcher is configured with a loader of its own class (derived from the persister's)
                kwargs['loader'] = type('LauncherLoader', (LauncherSideCounts, type(loader)), {})()
                LauncherSideCounts.consulted = 0
            if case['loader'] == 'custom_ctx':
                kwargs['load_context'] = plumpy.LoadSaveContext()
            if case['loader'] == 'ctx_only':
                # (messages and checkpoints carry default identifiers, which this loader understands -- and counts)
                kwargs.pop('loader')
                kwargs['load_context'] = plumpy.LoadSaveContext(loader=c19.LenientCountingLoader())
            if case.get('built') == 'elsewhere':
                other = asyncio.new_event_loop()
                asyncio.set_event_loop(other)
                try:
                    kwargs.pop('loop')
                    launcher = pc.ProcessLauncher(**kwargs)
                finally:
                    asyncio.set_event_loop(loop)
                    other.close()
                obs['launcher_built_elsewhere'] = 1
            else:
                launcher = pc.ProcessLauncher(**kwargs)
            base = comm.RmqShaped()
            lcomm = communications.LoopCommunicator(base, loop)
            lcomm.add_task_subscriber(launcher)
            tctl = pc.RemoteProcessThreadController(base)
            actl = pc.RemoteProcessController(base)
            programs.INSTANCES.clear()
            classes = {k: programs.program_class(v, LateFail if v.get('late_fail') else (Unpicklable if v.get('unpicklable') else (PausedStart if v.get('paused_start') else None))) for k, v in PROGS.items()}
            made = []  # per create/launch task: {'pid', 'prog', 'persisted'}
            can_persist = case['persister'] in ('mem', 'pickle')

            killed = []

            def settle(fut_or_task, expect_blocking):
                """Pump until the reply is there; resume (or, if asked, kill) waiting processes only when the task waits for completion."""
                for _ in range(40):
                    drv.pump()
                    if fut_or_task.done():
                        return
                    if expect_blocking:
                        woke = False
                        for p in list(programs.INSTANCES):
                            if not p.has_terminated() and p.state == ps.ProcessState.WAITING and p not in idle:
                                try:
                                    if kill_flag[0]:
                                        p.kill('killed-while-task-waits')
                                        killed.append(p)
                                        kill_flag[0] = False
                                    else:
                                        p.resume('rv')
                                    woke = True
                                except Exception:  # noqa: BLE001
                                    pass
                        if not woke:
                            return
                    else:
                        return

            def send(task, blocking):
                if case['route'] == 'direct':
                    t = loop.create_task(launcher(None, copy.deepcopy(task)))
                    settle(t, blocking)
                    return _reply(t)
                if case['route'] == 'thread':
                    fut = futures.unwrap_kiwi_future(tctl.task_send(copy.deepcopy(task)))
                    settle(fut, blocking)
                    return _reply(fut)
                async def go():
                    f1 = base.task_send(copy.deepcopy(task))
                    f2 = await asyncio.wrap_future(f1)
                    if isinstance(f2, kiwipy.Future):
                        return await asyncio.wrap_future(f2)
                    return f2
                t = loop.create_task(go())
                settle(t, blocking)
                return _reply(t)

            def finish_all():
                """Let every launched process run to completion (the model says launch/continue run to completion)."""
                for _ in range(40):
                    drv.pump()
                    for p in list(programs.INSTANCES):
                        if p.paused and not p.has_terminated() and p not in idle and getattr(p, '_pv_started', True):
                            obs['paused_at_start_played'] = obs.get('paused_at_start_played', 0) + 1
                            p.play()  # (the go-ahead for a process that paused itself when it was initialised)
                    drv.pump()
                    live = [p for p in list(programs.INSTANCES) if not p.has_terminated() and p.state == ps.ProcessState.WAITING and getattr(p, '_pv_started', True)]
                    woke = False
                    for p in live:
                        if p in idle:
                            continue
                        try:
                            p.resume('rv')
                            woke = True
                        except Exception:  # noqa: BLE001
                            pass
                    if not woke:
                        break

            idle = set()  # instances that were only created (must never run)
            kill_flag = [False]
            for op in case['history']:
                kind = op[0]
                kill_flag[0] = op[-1] == 'kill'
                nkilled = len(killed)
                obs['tasks'][kind] = obs['tasks'].get(kind, 0) + 1
                before = set(id(p) for p in programs.INSTANCES)
                cps_before = _keys(persister)
                ctx = '%s: %s after %s' % (label, op, case['history'][:case['history'].index(op)])
                if kind == 'bogus':
                    name = op[1] if len(op) > 1 else 'no-such-task'
                    msg = {'task': name}
                    if isinstance(name, str) and len(name) % 2:
                        msg['args'] = {}
                    rep = send(msg, False)
                    if rep != ['rejected']:
                        viol.append(V('bogus-not-rejected', 'bogus-not-rejected', '%s: unknown task type %r answered %s' % (ctx, name, rep)))
                    obs['bogus_names'][repr(name)] = 1
                    obs['rejected'] += 1
                    new = [p for p in programs.INSTANCES if id(p) not in before]
                    if new:
                        viol.append(V('rejected-but-ran', 'rejected-but-ran:bogus', '%s: a rejected task created processes' % ctx))
                    continue
                if kind in ('create', 'launch'):
                    prog, persist = op[1], op[2]
                    nowait = op[3] if kind == 'launch' else None
                    cls = classes[prog]
                    if kind == 'create':
                        task = pc.create_create_body(cls, persist=persist, loader=loader)
                    else:
                        task = pc.create_launch_body(cls, persist=persist, loader=loader, nowait=nowait)
                    blocking = kind == 'launch' and not nowait
                    rep = send(task, blocking)
                    new = [p for p in programs.INSTANCES if id(p) not in before]
                    unsaveable = PROGS[prog].get('unpicklable') and case['persister'] == 'pickle'
                    if unsaveable and persist:
                        obs['unsaveable_persist_tasks'] = obs.get('unsaveable_persist_tasks', 0) + 1
                    if persist and (not can_persist or unsaveable):
                        # cannot be honoured: rejected (no persister) or failed (persister cannot save); nothing may run
                        obs['rejected'] += 1
                        ok = rep == ['rejected'] if case['persister'] == 'none' else rep[0] in ('rejected', 'error')
                        if not ok:
                            viol.append(V('unpersistable-not-refused', 'unpersistable-not-refused:%s:%s' % (kind, case['persister']), '%s: answered %s' % (ctx, rep)))
                        drv.pump()
                        if new and case['persister'] == 'none':
                            # no persister at all: the task is refused as it stands, not after a process has been constructed for it
                            viol.append(V('refused-but-constructed', 'refused-but-constructed:%s' % kind, '%s: the task was rejected (%s) but %d process(es) '
                                          'had been constructed for it' % (ctx, rep, len(new))))
                        for p in new:
                            idle.add(p)
                            if any(t[0] == 'enter' for t in p.trace) or p.state.value != 'created':
                                viol.append(V('refused-but-ran', 'refused-but-ran:%s:%s' % (kind, case['persister']),
                                              '%s: the task failed (%s) but the process was executed anyway (state %s)' % (ctx, rep, p.state.value)))
                        made.append({'pid': None, 'prog': prog, 'persisted': False})
                        if case['persister'] == 'none' and kind == 'create' and not PROGS[prog].get('unpicklable'):
                            # what a communicator does with a rejected task: the very same message goes to the next subscriber -- here a
                            # launcher that can persist.  It gets the task as it was sent, and honours all of it.
                            msg = copy.deepcopy(task)
                            t1 = loop.create_task(launcher(None, msg))
                            drv.pump()
                            mem_b = plumpy.InMemoryPersister(loader)
                            launcher_b = pc.ProcessLauncher(loop=loop, persister=mem_b, loader=loader)
                            t2 = loop.create_task(launcher_b(None, msg))
                            drv.pump()
                            rep_b = _reply(t2)
                            obs['redelivered_after_rejection'] = obs.get('redelivered_after_rejection', 0) + 1
                            for p in [p for p in programs.INSTANCES if id(p) not in before and p not in new]:
                                idle.add(p)
                            if _reply(t1) == ['rejected'] and (rep_b[0] != 'result' or len(mem_b.get_checkpoints()) != 1):
                                viol.append(V('redelivered-task-differs', 'redelivered-task-differs:%s' % kind, '%s: the task rejected by a launcher without a persister was handed '
                                              'on to one that has one: answer %s, checkpoints written %d (message now %r, sent %r)' % (
                                                  ctx, rep_b, len(mem_b.get_checkpoints()), msg, task)))
                        continue
                    if len(new) != 1:
                        viol.append(V('instance-count', 'instance-count:%s' % kind, '%s: %d process instances were constructed' % (ctx, len(new))))
                        made.append({'pid': None, 'prog': prog, 'persisted': False})
                        continue
                    proc = new[0]
                    made.append({'pid': proc.pid, 'prog': prog, 'persisted': bool(persist), 'proc': proc})
                    cps_after = _keys(persister)
                    obs['persisted_checks'] += 1
                    exp_cps = cps_before | ({(repr(proc.pid), None)} if persist else set())
                    if cps_after != exp_cps:
                        viol.append(V('checkpoint-presence', 'checkpoint-presence:%s:%s' % (kind, 'missing' if persist else 'unexpected'),
                                      '%s: persister holds %s, expected %s' % (ctx, sorted(cps_after), sorted(exp_cps))))
                    if persist and (repr(proc.pid), None) in cps_after:
                        # the checkpoint is the freshly created process (taken before it ran)
                        b = persister.load_checkpoint(proc.pid, None)
                        st = b['_state']['!!meta']['class_name'] if '_state' in b else '?'
                        if 'Created' not in str(st):
                            viol.append(V('checkpoint-not-initial', 'checkpoint-not-initial:%s' % kind, '%s: the checkpoint taken at %s holds state %s' % (ctx, kind, st)))
                    if kind == 'create':
                        idle.add(proc)
                        drv.pump()
                        if rep != ['result', _jsonable(proc.pid)]:
                            viol.append(V('create-reply', 'create-reply', '%s: reply %s, pid %r' % (ctx, rep, proc.pid)))
                        if proc.state.value != 'created' or proc.trace:
                            viol.append(V('create-ran', 'create-ran', '%s: the created process ran (state %s)' % (ctx, proc.state.value)))
                    else:
                        if nowait:
                            obs['nowait_replies'] += 1
                            if rep != ['result', _jsonable(proc.pid)]:
                                viol.append(V('nowait-reply', 'nowait-reply:launch', '%s: nowait reply %s, pid %r' % (ctx, rep, proc.pid)))
                        finish_all()
                        _check_completed(proc, prog, rep if not nowait else None, ctx, viol, obs, V, full=True)
                    continue
                if kind == 'continue':
                    ref, tag, nowait = op[1], op[2], op[3]
                    target = made[ref] if ref != 'unknown' and ref < len(made) else None
                    # (a process nobody knows: its id is an integer, a string or a UUID -- the kinds of id an application may use)
                    unknown_pid = [987654, 'calc-17', uuid.UUID(int=77)][len(made) % 3]
                    obs['unknown_pid_kinds'] = obs.get('unknown_pid_kinds', {})
                    if not (target and target['pid'] is not None):
                        obs['unknown_pid_kinds'][type(unknown_pid).__name__] = 1
                    pid = target['pid'] if target and target['pid'] is not None else unknown_pid
                    have = (repr(pid), tag) in _keys(persister) if can_persist else False
                    if tag == 't' and target and target.get('persisted') and can_persist and not have:
                        # take the second checkpoint from a partly run copy of the created process (harness side)
                        snap = persister.load_checkpoint(pid, None)
                        lctx = plumpy.LoadSaveContext(loop=loop, loader=loader) if loader else plumpy.LoadSaveContext(loop=loop)
                        partial = snap.unbundle(lctx)
                        idle.add(partial)
                        t = loop.create_task(partial.step_until_terminated())
                        drv.pump()
                        persister.save_checkpoint(partial, 't')
                        t.cancel()
                        drv.pump()
                        have = True
                        before = set(id(p) for p in programs.INSTANCES)
                    task = pc.create_continue_body(pid, tag=tag, nowait=nowait)
                    loads_before = c19.CountingLoader.loads
                    launcher_loads_before = LauncherSideCounts.consulted
                    rep = send(task, not nowait)
                    new = [p for p in programs.INSTANCES if id(p) not in before]
                    if case['persister'] == 'none':
                        obs['rejected'] += 1
                        if rep != ['rejected']:
                            viol.append(V('continue-without-persister', 'continue-without-persister', '%s: answered %s' % (ctx, rep)))
                        if new:
                            viol.append(V('rejected-but-ran', 'rejected-but-ran:continue', '%s: a rejected continue created processes' % ctx))
                        continue
                    if not have:
                        if tag == 'gone' and target and target.get('persisted') and can_persist:
                            obs['absent_tag_with_untagged_checkpoint'] = obs.get('absent_tag_with_untagged_checkpoint', 0) + 1
                        if new:
                            viol.append(V('continue-absent-ran', 'continue-absent-ran', '%s: no checkpoint (%r, %r), yet %d process(es) were recreated' % (ctx, pid, tag, len(new))))
                        if rep[0] not in ('error', 'rejected'):
                            viol.append(V('continue-absent', 'continue-absent', '%s: no checkpoint (%r, %r) but the reply is %s' % (ctx, pid, tag, rep)))
                        continue
                    if len(new) != 1:
                        viol.append(V('instance-count', 'instance-count:continue', '%s: %d instances recreated (reply %s)' % (ctx, len(new), rep)))
                        continue
                    proc = new[0]
                    snap_trace = list(persister.load_checkpoint(pid, tag).get('trace', []))
                    if tag == 't':
                        obs['continued_from_tag'] += 1
                    if nowait:
                        obs['nowait_replies'] += 1
                        if rep != ['result', _jsonable(pid)]:
                            viol.append(V('nowait-reply', 'nowait-reply:continue', '%s: nowait reply %s, pid %r' % (ctx, rep, pid)))
                    finish_all()
                    if proc.pid != pid:
                        viol.append(V('continue-wrong-process', 'continue-wrong-process', '%s: continued pid %r' % (ctx, proc.pid)))
                    if list(proc.trace[:len(snap_trace)]) != snap_trace:
                        viol.append(V('continue-wrong-checkpoint', 'continue-wrong-checkpoint:%s' % ('tag' if tag else 'default'),
                                      '%s: the continued process does not extend the stored snapshot (snapshot trace %s, process trace %s)' % (
                                          ctx, snap_trace[:4], proc.trace[:4])))
                    _check_completed(proc, target['prog'], rep if not nowait else None, ctx, viol, obs, V, full=False)
                    if case['loader'] == 'custom_split':
                        obs['launcher_loader_of_its_own_class'] = 1
                        if LauncherSideCounts.consulted == launcher_loads_before:
                            viol.append(V('loader-unused', 'loader-unused:launcher-side', '%s: the loader the launcher is configured with was never consulted for the continue task '
                                          '(the checkpoint records the class of the persister\'s loader)' % ctx))
                    elif (loader is not None or case['loader'] == 'ctx_only') and c19.CountingLoader.loads == loads_before:
                        viol.append(V('loader-unused', 'loader-unused', '%s: the configured custom loader was never consulted' % ctx))
                if viol:
                    break
            # processes that were only created never ran
            drv.pump()
            for p in idle:
                if p.state.value not in ('created',) and not getattr(p, '_pv_partial', False) and p in [m.get('proc') for m in made]:
                    viol.append(V('create-ran', 'create-ran:later', '%s: a process that was only created ran later (state %s)' % (label, p.state.value)))
            obs['custom_loads'] = c19.CountingLoader.loads
            # a process launched without waiting belongs to the launcher that started it: it goes on in the background until it ends, also
            # when it waits for a long time and nobody else holds on to it (no communicator, no reference kept by the sender)
            if not viol:
                import gc
                BackgroundWaiter.instances.clear()
                launcher3 = pc.ProcessLauncher(loop=loop)
                t = loop.create_task(launcher3(None, pc.create_launch_body(BackgroundWaiter, nowait=True)))
                drv.pump()
                rep3 = _reply(t)
                del t
                for _ in range(2):
                    gc.collect()
                    drv.pump()
                alive = list(BackgroundWaiter.instances)
                obs['background_processes_checked'] = 1
                if rep3[0] != 'result' or len(alive) != 1 or alive[0].state != ps.ProcessState.WAITING:
                    viol.append(V('background-process-lost', 'background-process-lost', '%s: a waiting process launched without waiting (reply %s) is gone after a garbage '
                                  'collection: %d instance(s) alive%s' % (label, rep3, len(alive), '' if not alive else ' in state %s' % alive[0].state)))
                else:
                    alive[0].resume()
                    drv.pump()
                    if alive[0].state != ps.ProcessState.FINISHED:
                        viol.append(V('background-process-lost', 'background-process-lost:not-finished', '%s: the background process did not finish after its resume (%s)' % (label, alive[0].state)))
                del alive
            # a second launcher in the same program, configured on its own: no loader argument, a persister that writes with a strict
            # custom loader (so the loader recorded in each checkpoint is the one to use).  What the first launcher did must not matter.
            if not viol:
                mem2 = plumpy.InMemoryPersister(c19.CountingLoader())
                launcher2 = pc.ProcessLauncher(loop=loop, persister=mem2)
                t = loop.create_task(launcher2(None, pc.create_create_body(classes['plain'], persist=True)))
                drv.pump()
                rep = _reply(t)
                if rep[0] != 'result':
                    viol.append(V('second-launcher', 'second-launcher:create', '%s: create task of a second launcher answered %s' % (label, rep)))
                else:
                    t = loop.create_task(launcher2(None, pc.create_continue_body(t.result(), nowait=False)))
                    drv.pump()
                    rep2 = _reply(t)
                    obs['second_launcher_continues'] = 1
                    if rep2 != ['result', {'o': 1}]:
                        viol.append(V('second-launcher', 'second-launcher:continue', '%s: a second launcher (persister with its own loader, no loader '
                                      'argument) could not continue its checkpoint after this history: %s' % (label, rep2)))
    except BudgetExceeded:
        return {'viol': [], 'obs': obs, 'inconclusive': 'budget', 'key': case, 'nontrivial': False}
    finally:
        logging.disable(logging.CRITICAL)
        logging.getLogger('plumpy').removeHandler(strict)
        obs['log_records_formatted'] = strict.seen
        loaders.set_object_loader(None)
        shutil.rmtree(workdir, ignore_errors=True)
    res = {'viol': judges._dedupe(viol), 'obs': obs, 'key': case, 'nontrivial': obs['traces_checked'] > 0 or obs['persisted_checks'] > 0}
    res['sample'] = dict(case)
    return res


def _keys(persister):
    if persister is None:
        return set()
    try:
        return {(repr(c.pid), c.tag) for c in persister.get_checkpoints()}
    except Exception:  # noqa: BLE001
        return set()


def _check_completed(proc, prog, rep, ctx, viol, obs, V, full):
    if proc.state.value == 'killed' and proc.killed_msg().get('message') == 'killed-while-task-waits':
        # the harness killed it while the task was waiting for completion: the reply must be the process's error
        obs['killed_replies'] = obs.get('killed_replies', 0) + 1
        if rep is not None and not (rep[0] == 'error' and 'Killed' in rep[1] + rep[2]):
            viol.append(V('killed-reply', 'killed-reply', '%s: the process was killed but the reply is %s' % (ctx, rep)))
        return
    exp = programs.expected_run(PROGS[prog], [(True, 'rv')] * 3)
    obs['traces_checked'] += 1
    got = [[t[1], t[4], t[5]] for t in proc.trace if t[0] == 'enter']
    if got != exp['enters']:
        viol.append(V('task-trace', 'task-trace:%s' % ('launch' if full else 'continue'), '%s: executed steps %s, expected %s' % (ctx, got, exp['enters'])))
        return
    st, payload = exp['final']
    if PROGS[prog].get('late_fail'):
        st = 'excepted'
        obs['late_failures'] = obs.get('late_failures', 0) + 1
    if proc.state.value != st:
        viol.append(V('task-not-completed', 'task-not-completed', '%s: process ended %s, expected %s' % (ctx, proc.state.value, st)))
        return
    if rep is None:
        return
    if st == 'finished':
        obs['wait_replies'] += 1
        if rep != ['result', _jsonable(proc.outputs)]:
            viol.append(V('wait-reply', 'wait-reply', '%s: reply %s, outputs %s' % (ctx, rep, proc.outputs)))
    else:
        obs['error_replies'] += 1
        if rep[0] != 'error' or rep[1] != 'ProgError':
            viol.append(V('error-reply', 'error-reply', '%s: the process failed with %r but the reply is %s' % (ctx, proc.exception(), rep)))
