"""C05 -- pause/play is transparent: nothing runs while paused, no step lost or repeated."""
import itertools

from pv import judges, lifecycle, plans, programs

ID = 'C05'
TITLE = 'pause/play transparency'
ANCHORS = ['plumpy.processes:Process.pause', 'plumpy.processes:Process._do_pause', 'plumpy.processes:Process.play', 'plumpy.processes:Process.on_playing', 'plumpy.processes:Process.step', 'plumpy.process_states:Waiting.execute']
LEVEL = 'exploration'
TECHNIQUE = ('runtime monitoring: paused-flag assertion at every step entry + differential of the executed-step trace against a reference '
             'interpreter of the program text, under enumerated pause/play/resume placements')
RULE = ('programs x sequences of K<=2 (thorough: sampled K=3,4) requests from {pause,play,resume} at every loop-callback slot, each run '
        'completed by a final play and the owed resumes; distinct by (program, plan); non-trivial when a pause or play reached a live process')
RULE += ('; also: outline workchains (pauses issued by steps and listeners), listeners that play and pause again within one notification')
ASSUMPTIONS = ['programs depend only on their arguments (deterministic)', 'expected trace comes from an independent interpreter of the program text, '
               'cross-checked against the uninterrupted run of the real code']
REQUIRED = ['reincarnations', 'own_status_store_runs', 'requests_under_foreign_loop', 'calls_on_terminated', 'step_entries', 'pause_live', 'play_while_paused', 'pause_phase/running-step', 'pause_phase/waiting-step', 'pause_phase/between-steps-or-unstarted',
            'trace_compared', 'outline_runs', 'outline_pause_live', 'outline_play_while_paused', 'outline_pause_mid_run']
ALPHABET = [['pause', 'p'], ['pause', None], ['play'], ['resume', ['v']], ['resume', None]]
BOUNDS = {'quick': 'basic program family, K<=2 exhaustive, K=3 exhaustive over {pause,play}', 'thorough': 'K=3 exhaustive on 4 key programs, + 40 random programs, K=3/4 sampled, listener-issued pause/play'}


def _relevant(plan):
    return any(e['act'][0] in ('pause', 'play') for e in plan)


DEEP = ('wait_async', 'cont_async', 'out_async', 'wait2')  # thorough: K=3 exhaustive on these


def gen_cases(tier, seed):
    for case in gen_outline_cases(tier, seed):
        yield case
    progs = {k: v for k, v in programs.basic_programs().items()}
    rng = plans.rng_for(seed, 'c05')
    for n in range(40 if tier == 'thorough' else 6):
        progs['rnd%d' % n] = programs.random_program(rng, 5)
    for name, prog in sorted(progs.items()):
        n = plans.slots_of(prog)
        plist = [[]]
        plist += [p for p in plans.all_placements(n, ALPHABET, 1) if _relevant(p)]
        plist += [p for p in plans.all_placements(n, ALPHABET, 2) if _relevant(p)]
        plist += list(plans.all_placements(n, [['pause', 'p'], ['play']], 3))
        # pause / play issued from a listener notified during a transition, after a pause or play at a slot
        for ev in ('running', 'waiting', 'paused', 'played'):
            for k in (1, 2):
                for act in (['pause', 'p'], ['play']):
                    for s0 in range(0, n + 1, 2 if tier == 'quick' else 1):
                        for other in (['pause', 'p'], ['play']):
                            plist.append([{'at': s0, 'act': other}, {'at': ['listener', ev, k], 'act': act}])
        # a listener that plays and pauses again (with another message) within one notification, while a pause is pending / carried out
        for ev in ('running', 'waiting', 'paused'):
            for s0 in range(0, n + 1, 2 if tier == 'quick' else 1):
                plist.append([{'at': s0, 'act': ['pause', 'p']}, {'at': ['listener', ev, 1], 'act': ['play']}, {'at': ['listener', ev, 1], 'act': ['pause', 'second']}])
                plist.append([{'at': s0, 'act': ['pause', 'p']}, {'at': ['listener', ev, 2], 'act': ['play']}, {'at': ['listener', ev, 2], 'act': ['pause', 'second']}])
        if tier == 'thorough':
            plist += [p for p in plans.sampled_placements(rng, n, ALPHABET, 3, 1500) if _relevant(p)]
            plist += [p for p in plans.sampled_placements(rng, n, ALPHABET, 4, 800) if _relevant(p)]
            for ev in ('running', 'waiting', 'paused', 'played'):
                for act in (['pause', 'p'], ['play']):
                    for s in range(0, n + 1):
                        for other in (['pause', 'p'], ['play']):
                            plist.append([{'at': s, 'act': other}, {'at': ['listener', ev, 1], 'act': act}])
        deep = ()
        if tier == 'thorough' and name in DEEP:
            deep = (p for p in plans.all_placements(n, [['pause', 'p'], ['play'], ['resume', ['v']]], 3) if _relevant(p))
        for i, plan in enumerate(itertools.chain(plist, deep)):
            yield {'name': name, 'program': prog, 'plan': plans.uniq(plan, 'q%d' % i), 'drain': True, 'probe': False,
                          'barrage': False, 'listener': True}
        # the requests come from code whose current event loop is another one than the loop the process was built for (a synchronous
        # driver that runs the process's loop in slices and acts in between): requests at the successive quiescent points
        Q = lambda *acts: [{'at': 'q', 'act': list(a)} for a in acts]  # noqa: E731
        for j, plan in enumerate([Q(['pause', 'p'], ['play']), Q(['pause', 'p'], ['play'], ['pause', 'p2'], ['play']), Q(['pause', 'p'], ['resume', ['v']], ['play']),
                                  Q(['pause', 'p'], ['play'], ['resume', ['v']]), [{'at': 1, 'act': ['pause', 'p']}] + Q(['play'], ['pause', 'p2'], ['play']),
                                  # (slot 0: before the process is first stepped)
                                  [{'at': 0, 'act': ['pause', 'p']}] + Q(['play']), [{'at': 0, 'act': ['pause', 'p']}] + Q(['play'], ['pause', 'p2'], ['play'])]):
            yield {'name': name, 'program': prog, 'plan': plans.uniq(plan, 'f%d' % j), 'drain': True, 'probe': False, 'barrage': False, 'listener': True,
                   'foreign_loop_outside': True}
        # the instance is lost at a quiescent point (while it waits, or while it is paused) and the process goes on in a new instance
        # recreated from a checkpoint taken there: pause / play around that are as transparent as without it
        for j, plan in enumerate([Q(['reincarnate']), Q(['pause', 'p'], ['reincarnate'], ['play']), Q(['pause', 'p'], ['reincarnate'], ['resume', ['v']], ['play']),
                                  Q(['reincarnate'], ['pause', 'p'], ['play']), [{'at': 1, 'act': ['pause', 'p']}] + Q(['reincarnate'], ['play']),
                                  [{'at': 0, 'act': ['pause', 'p']}] + Q(['reincarnate'], ['play'], ['reincarnate']), Q(['pause', 'p'], ['reincarnate'], ['reincarnate'], ['play'])]):
            yield {'name': name, 'program': prog, 'plan': plans.uniq(plan, 'i%d' % j), 'drain': True, 'probe': False, 'barrage': False, 'listener': True}
        # the task stepping a paused process is cancelled and the process is played before that cancellation has been delivered; a new
        # stepping task is started afterwards: the play holds
        for s0 in range(0, n + 1, 2 if tier == 'quick' else 1):
            yield {'name': name, 'program': prog, 'drain': True, 'probe': False, 'barrage': False, 'listener': True,
                   'plan': plans.uniq([{'at': s0, 'act': ['pause', 'p']}, {'at': 'q', 'act': ['abort_task']}, {'at': 'q+', 'act': ['play']}, {'at': 'q', 'act': ['restart_task']}], 'w%d' % s0)}
        # ... or the instance is lost at that very moment (whoever gave up stepping the paused process wrote a checkpoint before the
        # cancellation was delivered) and the process goes on in a new instance recreated from that checkpoint, stepped by a new task
        for s0 in range(0, n + 1, 2 if tier == 'quick' else 1):
            for tail in ([['play']], [['resume', ['v']], ['play']]):
                yield {'name': name, 'program': prog, 'drain': True, 'probe': False, 'barrage': False, 'listener': True,
                       'plan': plans.uniq([{'at': s0, 'act': ['pause', 'p']}, {'at': 'q', 'act': ['abort_task']}, {'at': 'q+', 'act': ['reincarnate']}]
                                          + [{'at': 'q', 'act': a} for a in tail], 'x%d' % s0)}
        # a process class that keeps its status message in a store of its own (the public accessors overridden): K <= 2 plans
        for j, plan in enumerate(list(plans.all_placements(n, ALPHABET, 1)) + [p for p in plans.all_placements(n, ALPHABET, 2) if _relevant(p)][::3]):
            yield {'name': name, 'program': prog, 'plan': plans.uniq(plan, 'o%d' % j), 'drain': True, 'probe': False, 'barrage': False, 'listener': True,
                   'own_status': True}
        # pause()/play() never raise -- also not on a process that was killed (while paused, pausing, ...) or otherwise terminated:
        # one pause + one kill at every pair of slots, then every control call again on the terminated process
        for p in plans.all_placements(n, [['pause', 'p'], ['kill', 'k'], ['play']], 2):
            kinds = [e['act'][0] for e in p]
            if 'kill' in kinds and kinds != ['kill', 'kill']:
                yield {'name': name, 'program': prog, 'plan': plans.uniq(p, 'k'), 'drain': True, 'probe': False,
                              'barrage': True, 'barrage_skip': ['fail', 'soon_raise', 'cancel_future'], 'listener': True, 'no_trace': True}


# -- outline WorkChains ----------------------------------------------------------------------------
OUTLINES = [
    [['step', 's0'], ['if', [['p0', [['step', 's1'], ['step', 's2']]], ['p1', [['step', 's3']]]], [['step', 's4']]], ['while', 'p2', [['step', 's5']]], ['step', 's6']],
    [['while', 'p0', [['if', [['p1', [['step', 's0']]]], None], ['step', 's1']]], ['ret', 3]],
    [['step', 's0'], ['step', 's1'], ['step', 's2']],
]
OUTLINE_SCRIPTS = [([True, False, True, False], []), ([False, True, True, True, False], []), ([False, False, True, False], [None, None, 7])]
_OUTLINE_CLS = {}


class _OutlineCalls:
    """Every step / predicate call of the outline is recorded with the paused flag (as a 'trace enter' event)."""

    def _call(self, kind, name):
        n = len(self.ctx.get('tr', []))
        self._rec.ev('trace', 'enter', n, self.paused, self.status, name)
        self.set_status('S%d' % n)
        self._rec.fire('step', self, n)  # plan entries ['step', n]: requests made from inside this call
        return super()._call(kind, name)


def _outline_class(ast_):
    from pv import generated, outlines
    key = repr(ast_)
    if key not in _OUTLINE_CLS:
        base = outlines.outline_class(ast_)
        cls = type('C05' + base.__name__, (_OutlineCalls, base), {})
        generated.register(cls)
        _OUTLINE_CLS[key] = cls
    return _OUTLINE_CLS[key]


class OutlineRun(lifecycle.Run):
    def _make_class(self):
        return _outline_class(self.case['ast'])

    def _construct(self, cls, loop):
        return cls(inputs={'preds': list(self.case['preds']), 'rets': list(self.case['rets'])}, loop=loop)

    def _collect_extra(self):
        return {'tr': list(self.proc.ctx.get('tr', []))}


def gen_outline_cases(tier, seed):
    from pv import outlines
    rng = plans.rng_for(seed, 'c05o')
    combos = [(oi, si) for oi in range(len(OUTLINES)) for si in range(len(OUTLINE_SCRIPTS))]
    for oi, si in combos:
        ast_, (preds, rets) = OUTLINES[oi], OUTLINE_SCRIPTS[si]
        base = {'outline': True, 'name': 'outline%d/script%d' % (oi, si), 'ast': ast_, 'preds': preds, 'rets': rets, 'program': {'steps': []},
                'drain': True, 'probe': False, 'barrage': False, 'listener': True}
        n = OutlineRun(dict(base, plan=[])).execute().record()['slots'] + 1
        alphabet = [['pause', 'p'], ['pause', None], ['play']]
        plist = [[]] + list(plans.all_placements(n, alphabet, 1)) + list(plans.all_placements(n, [['pause', 'p'], ['play']], 2))
        if tier == 'thorough':
            plist += list(plans.sampled_placements(rng, n, alphabet, 3, 3000))
        else:
            plist += list(plans.sampled_placements(rng, n, alphabet, 3, 150))
        # the steps of an outline are synchronous, a whole block runs within one loop callback: requests that arrive in the middle
        # come from the step / predicate functions themselves or from listeners notified of the transitions in between
        ncalls = len(outlines.interpret(ast_, preds, rets)[0])
        for i in range(ncalls):
            for first in (['pause', 'p'], ['pause', None]):
                plist.append([{'at': ['step', i], 'act': first}])
                plist.append([{'at': ['step', i], 'act': first}, {'at': ['listener', 'paused', 1], 'act': ['play']}])
                plist.append([{'at': ['step', i], 'act': first}, {'at': ['step', i], 'act': ['play']}])
                for j in range(i + 1, min(ncalls, i + 3)):
                    plist.append([{'at': ['step', i], 'act': first}, {'at': 'q', 'act': ['play']}, {'at': ['step', j], 'act': ['pause', 'again']}])
        for k in range(1, ncalls + 2):
            plist.append([{'at': ['listener', 'running', k], 'act': ['pause', 'lp']}])
            plist.append([{'at': ['listener', 'running', k], 'act': ['pause', 'lp']}, {'at': ['listener', 'paused', 1], 'act': ['play']}])
            plist.append([{'at': 0, 'act': ['pause', 'p0']}, {'at': 'q', 'act': ['play']}, {'at': ['listener', 'running', k], 'act': ['pause', 'lp']}])
        for i, plan in enumerate(plist):
            yield dict(base, plan=plans.uniq(plan, 'o%d' % i))


def run_outline_case(case):
    from pv import outlines
    V = judges.V
    rec = OutlineRun(dict(case)).execute().record()
    viol = judges.judge_c05(rec, check_trace=False)
    exp_trace, exp_result, how = outlines.interpret(case['ast'], case['preds'], case['rets'])
    fin = rec['final']
    got = rec['extra']['tr']
    pat = '>'.join(judges.act_pattern(rec, plan_only=True))
    if rec.get('stuck') is not None:
        viol.append(V('run-incomplete', 'run-incomplete:outline:%s' % pat, 'after the final play the loop is quiescent with the workchain still %s (called %s)' % (rec['stuck'], got)))
    elif rec['inconclusive'] is None:
        if got != exp_trace:
            kind = 'step-lost' if len(got) < len(exp_trace) else ('step-repeated' if len(got) > len(exp_trace) else 'step-order')
            viol.append(V(kind, '%s:outline:%s' % (kind, pat), 'outline calls %s, the uninterrupted run makes %s' % (got, exp_trace)))
        elif fin['state'] != 'finished' or fin['result'] != ['ok', exp_result]:
            viol.append(V('final-result', 'final-result:outline:%s' % pat, 'workchain ended %s with result %s, expected finished with %r' % (fin['state'], fin['result'], exp_result)))
    obs = {'outline_runs': 1, 'outline_calls': len(got), 'outline_pause_live': 0, 'outline_play_while_paused': 0, 'step_entries': len(got), 'pause_live': 0,
           'play_while_paused': 0, 'pause_phase': {}, 'trace_compared': 1, 'pause_returns': {}}
    for a in rec['acts']:
        if a['kind'] == 'pause' and a['live_before']:
            obs['outline_pause_live'] += 1
            if a['via'].startswith(('step', 'listener')):
                obs['outline_pause_mid_run'] = obs.get('outline_pause_mid_run', 0) + 1
        if a['kind'] == 'play' and a['paused_before']:
            obs['outline_play_while_paused'] += 1
    res = {'viol': judges._dedupe(viol), 'obs': obs, 'inconclusive': rec['inconclusive'], 'key': [case['name'], case['plan']],
           'nontrivial': obs['outline_pause_live'] + obs['outline_play_while_paused'] > 0}
    res['sample'] = {'program': case['name'], 'plan': case['plan'], 'final_state': fin['state'] if fin else None,
                     'acts': [[a['kind'], a['via'], a['phase'], a['ret']] for a in rec['acts']], 'calls': got}
    return res


def run_case(case):
    if case.get('outline'):
        return run_outline_case(case)
    rec = lifecycle.run_case(case)
    viol = judges.judge_c05(rec, check_trace=not case.get('no_trace'))
    obs = {'step_entries': 0, 'pause_live': 0, 'play_while_paused': 0, 'pause_phase': {}, 'trace_compared': 0, 'pause_returns': {},
           'requests_under_foreign_loop': sum(1 for a in rec['acts'] if a.get('foreign_loop_current')), 'own_status_store_runs': int(bool(case.get('own_status'))),
           'reincarnations': sum(1 for a in rec['acts'] if a['kind'] == 'reincarnate' and a['ret'] == ['value', None])}
    obs['step_entries'] = sum(1 for e in rec['events'] if e[0] == 'trace' and e[1] == 'enter')
    for a in rec['acts']:
        if a['kind'] == 'pause' and a['live_before']:
            obs['pause_live'] += 1
            ph = a['phase'].split('/')
            if 'stepping' in ph:
                k = 'running-step' if ph[0] == 'running' else 'waiting-step'
            else:
                k = 'between-steps-or-unstarted'
            obs['pause_phase'][k] = obs['pause_phase'].get(k, 0) + 1
            r = a['ret'][0] if a['ret'][0] != 'value' else str(a['ret'][1])
            obs['pause_returns'][r] = obs['pause_returns'].get(r, 0) + 1
        if a['kind'] == 'play' and a['paused_before']:
            obs['play_while_paused'] += 1
        if a['kind'] in ('pause', 'play') and not a['live_before']:
            obs['calls_on_terminated'] = obs.get('calls_on_terminated', 0) + 1
    if programs.is_plain(case['program']) and rec['inconclusive'] is None and not case.get('no_trace'):
        obs['trace_compared'] = 1
    res = {'viol': viol, 'obs': obs, 'inconclusive': rec['inconclusive'], 'key': [case['name'], case['plan']],
           'nontrivial': obs['pause_live'] + obs['play_while_paused'] > 0}
    res['sample'] = {'program': case['name'], 'plan': case['plan'], 'final_state': rec['final']['state'] if rec['final'] else None,
                     'acts': [[a['kind'], a['via'], a['phase'], a['ret']] for a in rec['acts']],
                     'steps': [[e[2], e[5]] for e in rec['events'] if e[0] == 'trace' and e[1] == 'enter']}
    return res
