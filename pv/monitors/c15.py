"""C15 -- exposing ports copies exactly the selected ports, independently of the source."""
import copy
import itertools

import plumpy
from plumpy.ports import UNSPECIFIED, InputPort, OutputPort, PortNamespace
from plumpy.process_spec import ProcessSpec

from pv import judges, plans

ID = 'C15'
TITLE = 'expose_inputs / expose_outputs'
ANCHORS = ['plumpy.ports:PortNamespace.absorb', 'plumpy.ports:PortNamespace.strip_namespace', 'plumpy.process_spec:ProcessSpec._expose_ports', 'plumpy.ports:PortNamespace.create_port_namespace']
LEVEL = 'exploration'
TECHNIQUE = ('runtime monitoring against a reference model: expose_inputs/expose_outputs executed on generated source port trees and rule sets; '
             'the destination tree is compared with an independent component-wise path-selection model, attributes with the source, and '
             'mutation probes on either side check independence')
RULE = ('source port trees to depth 3 over names {a, ab, abc, b, x} (so names are string prefixes of one another) with random port / namespace '
        'attributes x include-or-exclude rule sets of 1-3 actual paths (no rule an ancestor of another) x target namespace (none / one level / '
        'two levels) x namespace-option overrides x pre-existing destination ports, for inputs and outputs; quick enumerates all single rules '
        'and all rule pairs of 40 trees, thorough 600 trees; distinct by (tree, rules, target, options); non-trivial when the rule set '
        'selects a strict subset')
RULE += ('; also: empty namespaces, a reused options dictionary, targets below existing namespaces, a second narrower exposure of the same class, a destination port under the name of an excluded source port')
ASSUMPTIONS = ['an empty include list is treated by the code as "no filter" and is outside the quantifier', 'reference model written from the property statement']
REQUIRED = ['own_port_under_selected_name', 'portless_sources', 'source_namespaces_made_by_lookup', 'rejected_with_ports_of_its_own', 'later_exposures', 'only_destination_has_own_namespace_class', 'target_had_properties_of_its_own', 'other_separator', 'deep_targets', 'path_lookups', 'deep_path_lookups', 'exposes', 'include_cases', 'exclude_cases', 'prefix_sibling_cases', 'nested_rule_cases', 'attr_checks', 'mutation_probes', 'both_rejected',
            'namespace_option_cases', 'preexisting_kept', 'options_reused', 're_exposures', 'own_port_under_excluded_name', 'renamed_source_ports']
BOUNDS = {'quick': '40 trees x all single rules and pairs', 'thorough': '600 trees, rule sets up to 3'}
NAMES = ['a', 'ab', 'abc', 'b', 'x']


def v_pos(value, port):
    return None


def v_ns(values, port):
    return None


def _make_local_validator():
    def v_local(value, port):
        return None
    return v_local


# (validators as applications write them: an anonymous function, a function defined inside another one)
v_lambda = lambda value, port: None  # noqa: E731
v_local = _make_local_validator()


def _rand_port_attrs(rng, kind):
    attrs = {}
    if rng.random() < 0.5:
        attrs['required'] = rng.random() < 0.5
    if rng.random() < 0.4:
        attrs['valid_type'] = rng.choice(['int', 'str'])
    if rng.random() < 0.4:
        attrs['help'] = 'help-%d' % rng.randint(0, 99)
    if rng.random() < 0.3:
        attrs['validator'] = rng.choice(['v_pos', 'v_pos', 'v_lambda', 'v_local'])
    if kind == 'in' and rng.random() < 0.4:
        attrs['default'] = 3 if attrs.get('valid_type') != 'str' else 's'
        if 'valid_type' not in attrs and 'validator' not in attrs and rng.random() < 0.5:
            # a default that is a read-only mapping holding a list (e.g. the parsed inputs of something else): the exposed port gets a
            # copy of it all the way down
            attrs['default'] = '@FROZEN'
    return attrs


def _rand_ns_attrs(rng):
    attrs = {}
    if rng.random() < 0.4:
        attrs['required'] = rng.random() < 0.5
    if rng.random() < 0.3:
        attrs['dynamic'] = True
    if rng.random() < 0.2:
        attrs['valid_type'] = 'int'
    if rng.random() < 0.3:
        attrs['help'] = 'nshelp-%d' % rng.randint(0, 99)
    if rng.random() < 0.3:
        attrs['populate_defaults'] = False
    if rng.random() < 0.2:
        attrs['validator'] = 'v_ns'
    if rng.random() < 0.3:
        attrs['default'] = {'dflt': rng.randint(0, 9)}  # (a namespace may carry a default of its own)
    return attrs


def rand_tree(rng, depth, kind):
    tree = {}
    names = rng.sample(NAMES, rng.randint(2, 4))
    for name in names:
        if depth > 0 and rng.random() < 0.55:
            # (one namespace in six has no ports of its own yet, e.g. a purely dynamic one)
            tree[name] = ['ns', _rand_ns_attrs(rng), rand_tree(rng, depth - 1, kind) if rng.random() > 0.17 else {}]
        else:
            tree[name] = ['port', _rand_port_attrs(rng, kind)]
    return tree


def paths(tree, prefix=''):
    out = []
    for name, d in tree.items():
        p = prefix + name
        out.append(p)
        if d[0] == 'ns':
            out.extend(paths(d[2], p + '.'))
    return out


def _is_anc(a, b):
    return b.startswith(a + '.')


TYPES = {'int': int, 'str': str}
VALIDATORS = {'v_pos': v_pos, 'v_ns': v_ns, 'v_lambda': v_lambda, 'v_local': v_local}


def _kw(attrs):
    kw = dict(attrs)
    if 'valid_type' in kw:
        kw['valid_type'] = TYPES[kw['valid_type']]
    if 'validator' in kw:
        kw['validator'] = VALIDATORS[kw['validator']]
    if kw.get('default') == '@FROZEN':
        kw['default'] = plumpy.utils.AttributesFrozendict({'tags': ['a'], 'sub': plumpy.utils.AttributesFrozendict({'n': [1]})})
    if kw.get('default') == '@UNSPEC':
        kw['default'] = UNSPECIFIED  # (the public "no default" marker is an option value like any other)
    return kw


class SlashNamespace(PortNamespace):
    """An application's namespace class that separates the levels of a path with '/'."""
    NAMESPACE_SEPARATOR = '/'


class SlashSpec(ProcessSpec):
    PORT_NAMESPACE_TYPE = SlashNamespace


class OwnNamespace(PortNamespace):
    """An application's namespace class that changes nothing about paths (same separator as the stock class)."""


class OwnNamespaceSpec(ProcessSpec):
    PORT_NAMESPACE_TYPE = OwnNamespace


class TaggedInputPort(InputPort):
    """An application's own port class with a setting of its own that is a mutable object (a list of tags)."""

    def __init__(self, *args, **kwargs):
        super().__init__(*args, **kwargs)
        self.tags = ['declared']


class TaggedOutputPort(OutputPort):
    def __init__(self, *args, **kwargs):
        super().__init__(*args, **kwargs)
        self.tags = ['declared']


DYNAMICALLY_MADE = []


def build(ns, tree, kind, renamed=False):
    for k, (name, d) in enumerate(tree.items()):
        # (renamed: the first entry of every level was declared under another name and moved -- ``ns[new] = ns.pop(old)`` -- so the
        # key it is found under differs from the name the port object carries)
        made = 'was_' + name if renamed and k == 0 else name
        if d[0] == 'port':
            ns[made] = (TaggedInputPort if kind == 'in' else TaggedOutputPort)(made, **_kw(d[1]))
        elif ns.dynamic and made == 'ab':
            # (a namespace below a dynamic one that came into being through a look-up that may create -- what emitting a nested output
            # does to the specification of a class -- and was given its settings afterwards: a namespace of the source like any other)
            sub = ns.get_port(made, create_dynamically=True)
            DYNAMICALLY_MADE.append(made)
            for key, value in _kw(d[1]).items():
                setattr(sub, key, value)
            build(sub, d[2], kind, renamed)
        else:
            sub = type(ns)(made, **_kw(d[1])) if isinstance(ns, (SlashNamespace, OwnNamespace)) else PortNamespace(made, **_kw(d[1]))
            ns[made] = sub
            build(sub, d[2], kind, renamed)
        if made != name:
            ns[name] = ns.pop(made)


def gen_cases(tier, seed):
    rng = plans.rng_for(seed, 'c15')
    ntrees = 40 if tier == 'quick' else 600
    # a source that declares no ports at all (a class with purely dynamic inputs or outputs): there is still a namespace to expose --
    # the target is made, and it carries the source namespace's properties
    for kind in ('in', 'out'):
        for top in ({'dynamic': True, 'help': 'src-help'}, {'dynamic': True, 'valid_type': 'int', 'required': False}, {'help': 'only-help', 'populate_defaults': False}):
            for target in (None, 'tn', 'tn.sub', 'keep.sub'):
                for pre in (False, True):
                    yield {'kind': kind, 'tree': {}, 'top': top, 'mode': 'exclude', 'rules': ['zz'], 'target': target, 'options': {}, 'pre': pre, 'portless': True}
    for t in range(ntrees):
        kind = 'in' if t % 2 == 0 else 'out'
        tree = rand_tree(rng, rng.randint(1, 3), kind)
        allp = paths(tree)
        rulesets = [[p] for p in allp]
        for a, b in itertools.combinations(allp, 2):
            if not _is_anc(a, b) and not _is_anc(b, a):
                rulesets.append([a, b])
        if tier == 'thorough':
            for _ in range(20):
                rs = []
                for p in rng.sample(allp, min(3, len(allp))):
                    if not any(_is_anc(q, p) or _is_anc(p, q) or p == q for q in rs):
                        rs.append(p)
                rulesets.append(rs)
        if tier == 'quick' and len(rulesets) > 60:
            rulesets = rng.sample(rulesets, 60)
        top_attrs = _rand_ns_attrs(rng)
        for rs in rulesets:
            for mode in ('include', 'exclude'):
                target = rng.choice([None, None, 'tn', 'tn.sub', 'ab', 'emp.sub', 'keep.sub', 'tn.sub.deep'])
                opts = {}
                if rng.random() < 0.4:
                    opts = rng.choice([{'help': 'override'}, {'required': False}, {'dynamic': True}, {'populate_defaults': False},
                                       {'required': False, 'help': 'o2', 'valid_type': 'str'}, {'default': '@UNSPEC'}, {'default': {'other': 2}, 'help': 'o3'}])
                pre = rng.random() < 0.6
                yield {'kind': kind, 'tree': tree, 'top': top_attrs, 'mode': mode, 'rules': rs, 'target': target, 'options': opts, 'pre': pre,
                       'renamed': t % 3 == 1, 'slash': (True if t % 8 == 3 else 'dest') if t % 4 == 3 else False}
        # include together with exclude is rejected
        yield {'kind': kind, 'tree': tree, 'top': top_attrs, 'mode': 'both', 'rules': [allp[0]], 'target': None, 'options': {}, 'pre': False}
        # ... also when one of the two rule sets is given but empty (a computed rule set that came out empty)
        for variant in ('empty-include', 'empty-exclude'):
            yield {'kind': kind, 'tree': tree, 'top': top_attrs, 'mode': 'both', 'rules': [allp[0]], 'target': None, 'options': {}, 'pre': False, 'both_variant': variant}
        # ... and into a target below a namespace of the destination that holds ports of its own: a rejected call leaves those alone
        for variant, target in (('both', 'keep.sub'), ('empty-exclude', 'keep.sub'), ('empty-exclude', 'keep.sub.deeper'), ('empty-include', 'keep'), ('empty-exclude', 'fresh.sub')):
            yield {'kind': kind, 'tree': tree, 'top': top_attrs, 'mode': 'both', 'rules': [allp[0]], 'target': target, 'options': {}, 'pre': True, 'both_variant': variant}


# --- reference model -------------------------------------------------------------------------
def model_selected(tree, mode, rules, prefix=''):
    """-> the expected tree of kept entries (same shape as ``tree``)."""
    out = {}
    for name, d in tree.items():
        p = prefix + name
        if mode == 'include':
            selected = any(r == p or _is_anc(r, p) for r in rules)
            container = any(_is_anc(p, r) for r in rules)
            if d[0] == 'port':
                if selected:
                    out[name] = d
            else:
                if selected:
                    out[name] = d
                elif container:
                    out[name] = ['ns', d[1], model_selected(d[2], mode, rules, p + '.')]
        else:
            if any(r == p or _is_anc(r, p) for r in rules):
                continue
            if d[0] == 'port':
                out[name] = d
            else:
                out[name] = ['ns', d[1], model_selected(d[2], mode, rules, p + '.')]
    return out


def describe(ns):
    """Observable tree of a real PortNamespace."""
    out = {}
    for name, port in ns.items():
        if isinstance(port, PortNamespace):
            out[name] = ['ns', _ns_attrs(port), describe(port)]
        else:
            out[name] = ['port', _port_attrs(port)]
    return out


def _plain_value(v):
    """A snapshot by value (a mapping as a dict, a list as a list): what is compared later must not follow in-place changes."""
    if isinstance(v, (dict, plumpy.utils.Frozendict)):
        return {k: _plain_value(x) for k, x in v.items()}
    if isinstance(v, list):
        return [_plain_value(x) for x in v]
    return v


def _port_attrs(port):
    a = {'required': port.required, 'valid_type': port.valid_type, 'help': port.help, 'validator': port.validator, 'name': port.name,
         'tags': list(getattr(port, 'tags', ()))}
    if isinstance(port, InputPort):
        a['default'] = _plain_value(port.default) if port.has_default() else UNSPECIFIED
        a['has_default'] = port.has_default()
    return a


def _ns_attrs(ns):
    return {'required': ns.required, 'valid_type': ns.valid_type, 'help': ns.help, 'validator': ns.validator, 'dynamic': ns.dynamic,
            'populate_defaults': ns.populate_defaults, 'default': _plain_value(ns.default), 'name': ns.name}


def _ns_attrs_of(desc, name):
    return desc[name][1] if name in desc else None


def _names(tree, prefix=''):
    out = set()
    for name, d in tree.items():
        out.add(prefix + name)
        if d[0] == 'ns':
            out |= _names(d[2], prefix + name + '.')
    return out


def _attr_diffs(real, src, prefix=''):
    """Compare attributes of real (described destination) with source description for common paths."""
    diffs = []
    for name, d in real.items():
        if name not in src or d[0] != src[name][0]:
            continue
        if d[1] != src[name][1]:
            bad = sorted(k for k in d[1] if d[1][k] != src[name][1].get(k))
            diffs.append((prefix + name, d[0], bad))
        if d[0] == 'ns':
            diffs.extend(_attr_diffs(d[2], src[name][2], prefix + name + '.'))
    return diffs


class _Src:
    _spec = None

    @classmethod
    def spec(cls):
        return cls._spec


def run_case(case):
    V = judges.V
    kind = case['kind']
    obs_pre_root = 0
    slash = case.get('slash') is True
    sep = '/' if slash else '.'

    def P(path):
        # (paths are written with '.' in the cases and in the model; the specs of a 'slash' case separate levels with '/')
        return path.replace('.', sep) if isinstance(path, str) else path

    # ('dest': only the destination spec uses the application's namespace class, the exposed class is a stock one)
    src_spec = SlashSpec() if slash else ProcessSpec()
    src_sep = sep
    src_root = src_spec.inputs if kind == 'in' else src_spec.outputs
    for k, v in _kw(case['top']).items():
        setattr(src_root, k, v)
    del DYNAMICALLY_MADE[:]
    build(src_root, case['tree'], kind, renamed=bool(case.get('renamed')))
    made_dynamically = len(DYNAMICALLY_MADE)
    src_cls = type('Src', (_Src,), {'_spec': src_spec})
    dest = SlashSpec() if slash else (OwnNamespaceSpec() if case.get('slash') == 'dest' else ProcessSpec())
    droot = dest.inputs if kind == 'in' else dest.outputs
    if case['pre']:
        (dest.input if kind == 'in' else dest.output)('pre_existing', help='mine')
        (dest.input if kind == 'in' else dest.output)(P('keep.me'), required=False)
        # a namespace of the destination's own that has no ports yet, with properties that are not the defaults
        droot['emp'] = type(droot)('emp', dynamic=True, help='mine-emp', required=False)
        if not case['target']:
            # ... and properties of its own on the namespace the ports go into: after the exposure that namespace has the source's
            # (also where the source's value is None), unless the options say otherwise
            droot.help = 'mine-root'
            droot.validator = v_pos
            obs_pre_root = 1
    emp_before = droot['emp'] if case['pre'] else None
    own_excluded = []
    if case['pre'] and case['mode'] == 'exclude' and not case['target']:
        # the destination has a port of its own under the name of a source port that the rules exclude: not being exposed, the
        # source port does not replace it -- and the exposure does not remove it either
        for r in case['rules']:
            if '.' not in r:
                (dest.input if kind == 'in' else dest.output)(r, help='mine-' + r, required=False)
                own_excluded.append(r)
    own_selected = None
    if case['pre'] and not case['target'] and case['mode'] in ('include', 'exclude'):
        # ... and one under the name of a leaf port that the rules do select: the exposed port takes its place (ports of the same name are
        # overwritten, as absorb documents), it is not kept because "there is one already"
        chosen = model_selected(case['tree'], case['mode'], case['rules'])
        own_selected = next((n for n, d in chosen.items() if d[0] == 'port' and n not in own_excluded), None)
        if own_selected is not None:
            (dest.input if kind == 'in' else dest.output)(own_selected, help='mine-' + own_selected, required=False)
    pre_desc = describe(droot)
    expose = dest.expose_inputs if kind == 'in' else dest.expose_outputs
    obs = {'exposes': 1, 'include_cases': 0, 'exclude_cases': 0, 'prefix_sibling_cases': 0, 'nested_rule_cases': 0, 'attr_checks': 0,
           'own_port_under_selected_name': int(own_selected is not None), 'portless_sources': int(bool(case.get('portless'))), 'source_namespaces_made_by_lookup': made_dynamically, 'renamed_source_ports': int(bool(case.get('renamed'))), 'target_had_properties_of_its_own': obs_pre_root, 'other_separator': int(slash), 'only_destination_has_own_namespace_class': int(case.get('slash') == 'dest'), 'deep_targets': int(str(case.get('target') or '').count('.') >= 2), 'mutation_probes': 0, 'both_rejected': 0, 'namespace_option_cases': 0, 'preexisting_kept': 0, 'options_reused': 0}
    viol = []
    mode, rules = case['mode'], case['rules']
    shape = '%s:%s' % (mode, kind)
    if mode == 'both':
        variant = case.get('both_variant', 'both')
        inc = [] if variant == 'empty-include' else [P(r) for r in rules]
        exc = () if variant == 'empty-exclude' else [P(r) for r in rules]
        try:
            if case['target']:
                expose(src_cls, include=inc, exclude=exc, namespace=P(case['target']))
            else:
                expose(src_cls, include=inc, exclude=exc)
            viol.append(V('both-accepted', 'both-accepted:%s:%s' % (kind, variant), 'include=%r together with exclude=%r was accepted' % (inc, exc)))
        except ValueError:
            obs['both_rejected'] = 1
        if case['pre']:
            # the ports the destination had are where they were (what a rejected call may leave behind of its target is not judged)
            now = describe(droot)
            obs['rejected_with_ports_of_its_own'] = 1
            for name in ('pre_existing', 'keep', 'emp'):
                a, b = now.get(name), pre_desc.get(name)
                if name == 'keep' and a is not None and (case['target'] or '').startswith('keep'):
                    a = [a[0], a[1], {k: v for k, v in a[2].items() if k != 'sub'}]
                if a != b:
                    viol.append(V('preexisting-changed', 'preexisting-changed:rejected-call', 'after the rejected exposure into %s the destination\'s own %s is %s' % (
                        case['target'], name, 'gone' if a is None else 'changed')))
                    break
        return {'viol': viol, 'obs': obs, 'key': case, 'nontrivial': True, 'sample': {'mode': 'both', 'rules': rules}}
    opts = _kw(case['options'])
    kwargs = {mode: [P(r) for r in rules], 'namespace': P(case['target'])}
    if opts:
        kwargs['namespace_options'] = dict(opts)
        obs['namespace_option_cases'] = 1
    src_before = describe(src_root)
    try:
        expose(src_cls, **kwargs)
    except Exception as exc:  # noqa: BLE001
        viol.append(V('expose-raised', 'expose-raised:%s:%s' % (type(exc).__name__, shape), 'expose raised %r for %s' % (exc, case)))
        return {'viol': viol, 'obs': obs, 'key': case, 'nontrivial': True}
    obs['include_cases' if mode == 'include' else 'exclude_cases'] = 1
    if opts and kwargs['namespace_options'] != opts:
        # the caller's options dictionary must survive the call (it may be used for the next expose)
        viol.append(V('options-consumed', 'options-consumed', 'the namespace_options dictionary passed by the caller was changed by the call: %r, was %r' % (
            kwargs['namespace_options'], case['options'])))
    if any('.' in r for r in rules):
        obs['nested_rule_cases'] = 1
    allp = paths(case['tree'])
    if any(p != r and (p.startswith(r) or r.split('.')[0].startswith(p.split('.')[0])) and p.split('.')[0] != r.split('.')[0]
           for r in rules for p in allp):
        obs['prefix_sibling_cases'] = 1
    target_ns = droot
    if case['target']:
        try:
            target_ns = droot.get_port(P(case['target']))
        except ValueError:
            viol.append(V('target-missing', 'target-missing:' + shape, 'target namespace %s not created' % case['target']))
            return {'viol': viol, 'obs': obs, 'key': case, 'nontrivial': True}
    real = describe(target_ns)
    exp = model_selected(case['tree'], mode, rules)
    exp_names = _names(exp)
    real_names = _names(real)
    pre_names = _names(pre_desc) if not case['target'] else set()
    if case['target'] and case['target'] == 'ab':
        pass
    extra = real_names - exp_names - pre_names
    missing = exp_names - real_names
    if extra:
        first = sorted(extra)[0]
        why = 'prefix-sibling' if any(r.split('.')[0].startswith(first.split('.')[0]) or first.split('.')[0].startswith(r.split('.')[0]) for r in rules) else 'other'
        viol.append(V('extra-ports', 'extra-ports:%s:%s' % (shape, why), 'destination has unselected ports %s (rules %s %s, source paths %s)' % (
            sorted(extra), mode, rules, sorted(allp))))
    if missing:
        viol.append(V('missing-ports', 'missing-ports:' + shape, 'destination lacks selected ports %s (rules %s %s, source paths %s)' % (
            sorted(missing), mode, rules, sorted(allp))))
    # attributes of copied ports equal the source's
    src_tree_desc = src_before
    diffs = _attr_diffs({k: v for k, v in real.items() if k not in own_excluded}, src_tree_desc)
    obs['attr_checks'] = len(real_names & exp_names)
    for path, k, bad in diffs[:1]:
        viol.append(V('attr-differs', 'attr-differs:%s:%s' % (k, ','.join(bad)), 'copied %s %s differs from the source in %s' % (k, path, bad)))
    # target namespace carries the source namespace's properties unless overridden
    exp_top = dict(_ns_attrs(src_root))
    exp_top.update(opts)
    got_top = _ns_attrs(target_ns)
    for k in ('required', 'valid_type', 'help', 'validator', 'dynamic', 'populate_defaults', 'default'):
        e = exp_top[k]
        if k == 'dynamic' and exp_top.get('valid_type') is not None:
            e = True
        if got_top[k] != e:
            viol.append(V('namespace-attr', 'namespace-attr:%s' % k, 'target namespace %s=%r, expected %r (source %r, options %r)' % (
                k, got_top[k], e, _ns_attrs(src_root)[k], case['options'])))
            break
    # ... but not its name: the namespace the ports go into keeps the name it has in the destination
    want_name = case['target'].split('.')[-1] if case['target'] else droot.name
    obs['target_name_checks'] = 1
    if target_ns.name != want_name:
        viol.append(V('namespace-attr', 'namespace-attr:name', 'the target namespace is called %r after the exposure, expected %r' % (target_ns.name, want_name)))
    # the same class exposed a second time into the same namespace, with narrower rules: what the first exposure (and the
    # destination itself) put there stays in place
    # (with a top-level rule only: a nested rule re-creates the namespace above it, which replaces a namespace of the same name as
    # a whole -- the documented "a port of the same name is overwritten")
    if exp_names and mode == 'include' and any('.' not in r for r in rules):
        narrower = [sorted(r for r in rules if '.' not in r)[0]]
        before_again = describe(target_ns)
        try:
            expose(src_cls, include=narrower, namespace=P(case['target']))
            obs['re_exposures'] = 1
            after_again = describe(target_ns)
            lost = _names(before_again) - _names(after_again)
            if lost:
                viol.append(V('reexpose-removed', 'reexpose-removed', 'exposing the same class again with include=%s removed %s from the target namespace' % (
                    narrower, sorted(lost))))
        except Exception as exc:  # noqa: BLE001
            viol.append(V('reexpose-raised', 'reexpose-raised:%s' % type(exc).__name__, 'exposing the same class a second time raised %r' % (exc,)))
    # the same keyword arguments used for a second expose (into another namespace) give the same result
    if opts:
        kwargs2 = dict(kwargs, namespace='second_use')
        try:
            expose(src_cls, **kwargs2)
            second = droot.get_port('second_use')
            obs['options_reused'] = 1
            got2 = _ns_attrs(second)
            for k in ('required', 'valid_type', 'help', 'validator', 'dynamic', 'populate_defaults', 'default'):
                if got2[k] != got_top[k]:
                    viol.append(V('reuse-differs', 'reuse-differs:%s' % k, 'the second expose with the same arguments gave namespace %s=%r, the first %r (options %r)' % (
                        k, got2[k], got_top[k], case['options'])))
                    break
            if _names(describe(second)) != real_names - (pre_names if not case['target'] else set()) and case['target']:
                viol.append(V('reuse-differs', 'reuse-differs:ports', 'the second expose with the same arguments copied %s, the first %s' % (
                    sorted(_names(describe(second))), sorted(real_names))))
            del droot['second_use']
        except Exception as exc:  # noqa: BLE001
            viol.append(V('reuse-raised', 'reuse-raised:%s' % type(exc).__name__, 'second expose with the same arguments raised %r' % exc))
    # other destination ports stay in place
    if case['pre']:
        now = describe(droot)
        if 'emp' not in droot or droot['emp'] is not emp_before or _ns_attrs(droot['emp']) != _ns_attrs_of(pre_desc, 'emp'):
            viol.append(V('preexisting-changed', 'preexisting-changed:empty-namespace', 'the destination\'s own (empty) namespace emp was replaced or lost its '
                          'properties: %r, before %r (target %s)' % (_ns_attrs(droot['emp']) if 'emp' in droot else None, _ns_attrs_of(pre_desc, 'emp'), case['target'])))
        for name in ('pre_existing', 'keep'):
            if name not in exp_names or case['target']:
                a, b = now.get(name), pre_desc.get(name)
                if name == 'keep' and a is not None and (case['target'] or '').startswith('keep.'):
                    # the target lies below it: it keeps its properties and its own port, and gains the target namespace
                    a = [a[0], a[1], {k: v for k, v in a[2].items() if k != 'sub'}]
                if a != b and not (name in exp_names and not case['target']):
                    viol.append(V('preexisting-changed', 'preexisting-changed', 'pre-existing destination port %s changed/removed' % name))
        for name in own_excluded:
            obs['own_port_under_excluded_name'] = 1
            if now.get(name) != pre_desc.get(name):
                viol.append(V('preexisting-changed', 'preexisting-changed:excluded-name', 'the destination\'s own port %s, named like an excluded source port, was %s by the exposure' % (
                    name, 'removed' if name not in now else 'changed')))
        obs['preexisting_kept'] = 1
    # a port looked up by its path in the destination is the destination's copy (the object stored there), not the source's port --
    # whichever of the two specs was asked first
    for n, path in enumerate(sorted(p for p in (exp_names & real_names) if '.' in p)):
        order = (src_root, target_ns) if n % 2 == 0 else (target_ns, src_root)
        try:
            found = {id(root): root.get_port(path.replace('.', src_sep if root is src_root else sep), create_dynamically=False) for root in order}
        except ValueError:
            continue
        stored = target_ns
        for part in path.split('.'):
            stored = stored[part]
        obs['path_lookups'] = obs.get('path_lookups', 0) + 1
        if '.' in path.split('.', 1)[1]:
            obs['deep_path_lookups'] = obs.get('deep_path_lookups', 0) + 1
        if found[id(target_ns)] is not stored or found[id(target_ns)] is found[id(src_root)]:
            viol.append(V('lookup-gives-source-port', 'lookup-gives-source-port:' + kind, 'get_port(%r) on the destination returned %s, not the copy stored under that path '
                          '(asked the %s first)' % (path, 'the port of the source spec' if found[id(target_ns)] is found[id(src_root)] else 'another object',
                                                    'source' if n % 2 == 0 else 'destination')))
            break
    # independence: mutate the source, the destination must not change; then the other way round
    before = describe(target_ns)
    _mutate(src_root)
    obs['mutation_probes'] += 1
    after = describe(target_ns)
    if after != before:
        viol.append(V('source-change-shows', 'source-change-shows:' + shape, 'changing the source spec changed the exposed copy (%s)' % _first_diff(before, after)))
    src_now = describe(src_root)
    _mutate(target_ns, tag='dst')
    obs['mutation_probes'] += 1
    if describe(src_root) != src_now:
        viol.append(V('copy-change-shows', 'copy-change-shows:' + shape, 'changing the exposed copy changed the source spec (%s)' % _first_diff(src_now, describe(src_root))))
    # the same class exposed once more, later, into another namespace (both specs have changed in the meantime): what is copied
    # is the source as it is now, in copies of its own -- not what an earlier exposure copied
    try:
        first_copy = {k: v for k, v in describe(target_ns).items() if k != 'later_use'}
        expose(src_cls, **dict({k: v for k, v in kwargs.items() if k != 'namespace_options'}, namespace='later_use'))
        later = droot.get_port('later_use')
        obs['later_exposures'] = 1
        later_desc, src_desc_now = describe(later), describe(src_root)
        for path, k, bad in [d for d in _attr_diffs(later_desc, src_desc_now) if d[1] == 'port'][:1]:
            viol.append(V('later-copy-stale', 'later-copy-stale:%s' % k, 'exposed again after both specs had changed, the copied %s %s differs from the source as it is now in %s' % (k, path, bad)))

        def shared(a, b, prefix=''):
            for name, port in a.items():
                if name in b and b[name] is port:
                    return prefix + name
                if isinstance(port, PortNamespace) and name in b and isinstance(b[name], PortNamespace):
                    found = shared(port, b[name], prefix + name + '.')
                    if found:
                        return found
            return None

        same = shared(later, {k: v for k, v in target_ns.items() if k != 'later_use'})
        if same:
            viol.append(V('copies-share-port', 'copies-share-port', 'the port %s of the later exposure is the very object the first exposure put into its namespace' % same))
        _mutate(later, tag='dst')
        first_now = {k: v for k, v in describe(target_ns).items() if k != 'later_use'}
        if first_now != first_copy:
            viol.append(V('copy-change-shows', 'copy-change-shows:between-copies', 'changing the later copy changed the first one (%s)' % _first_diff(first_copy, first_now)))
        del droot['later_use']
    except Exception as exc:  # noqa: BLE001
        viol.append(V('reuse-raised', 'reuse-raised:later:%s' % type(exc).__name__, 'exposing the class once more later raised %r' % exc))
    res = {'viol': judges._dedupe(viol), 'obs': obs, 'key': case, 'nontrivial': 0 < len(exp_names) < len(allp)}
    res['sample'] = {'kind': kind, 'source_paths': sorted(allp), mode: rules, 'target': case['target'], 'options': case['options'],
                     'destination_paths': sorted(real_names)}
    return res


def _mutate(ns, tag='src'):
    """Change every attribute of every port / namespace below ``ns``, add a port and delete one at each level."""
    if isinstance(ns.default, dict):
        ns.default['changed_in_place_by'] = tag  # (the default of the namespace the exposure copied from / into: a mapping of its own)
    for name, port in list(ns.items()):
        port.help = '%s-mutated' % tag
        if isinstance(port, PortNamespace) and isinstance(port.default, dict):
            port.default['changed_in_place_by'] = tag
        if hasattr(port, 'tags'):
            port.tags.append(tag)  # (a setting that is changed in place, not assigned)
        port.required = not port.required
        port.validator = v_ns if port.validator is not v_ns else v_pos
        if isinstance(port, PortNamespace):
            port.dynamic = not port.dynamic
            port.populate_defaults = not port.populate_defaults
            _mutate(port, tag)
        else:
            port.valid_type = float
            if isinstance(port, InputPort):
                if port.has_default() and isinstance(port.default, plumpy.utils.Frozendict):
                    # (changed in place, below the read-only mapping, before it is replaced)
                    port.default['tags'].append(tag)
                    port.default['sub']['n'].append(tag)
                port.default = 'mutated-default'
    ns['zz_added_%s' % tag] = PortNamespace('zz_added_%s' % tag) if tag == 'src' else OutputPort('zz_added_%s' % tag)
    for name in list(ns):
        if not name.startswith('zz_added'):
            del ns[name]
            break


def _first_diff(a, b, prefix=''):
    for k in sorted(set(a) | set(b)):
        if k not in a:
            return 'added ' + prefix + k
        if k not in b:
            return 'removed ' + prefix + k
        if a[k][1] != b[k][1]:
            return 'attributes of %s: %s' % (prefix + k, sorted(x for x in a[k][1] if a[k][1][x] != b[k][1].get(x)))
        if a[k][0] == 'ns' and b[k][0] == 'ns':
            d = _first_diff(a[k][2], b[k][2], prefix + k + '.')
            if d:
                return d
    return ''
