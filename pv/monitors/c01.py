"""C01 -- state changes follow the lifecycle graph; terminal states are final."""
import itertools

from pv import judges, lifecycle, plans, programs, suiterun

ID = 'C01'
TITLE = 'lifecycle graph / terminal finality'
ANCHORS = ['plumpy.base.state_machine:StateMachine._exit_current_state', 'plumpy.base.state_machine:State.exit', 'plumpy.processes:Process.transition_failed', 'plumpy.processes:Process.callback_excepted', 'plumpy.processes:Process.fail', 'plumpy.processes:Process.kill', 'plumpy.processes:Process.pause', 'plumpy.processes:Process.play']
LEVEL = 'exploration'
TECHNIQUE = 'runtime monitoring: state invariant sampled after every event-loop callback + ENTERED_STATE hook stream, under enumerated request placements'
RULE = ('programs x placements of K<=2 (thorough: sampled K=3) requests from {pause,play,kill,resume,fail,late ok/raising callback} at every '
        'loop-callback slot, followed by a post-termination barrage of every control call; a case is distinct by (program, plan), '
        'non-trivial when at least one request was applied and the process terminated')
RULE += ('; also: aborted / restarted stepping tasks, one-shot state callbacks, programs with awkward values (uncopyable outputs, bare Kill()), processes recreated from a checkpoint, observers and cleanups that fail (function / partial / callable object), and the repository\'s own test suite run under the same edge oracle (pv/suitemon.py)')
ASSUMPTIONS = ['lifecycle hooks do not raise (C03 owns that)', 'single-threaded deterministic event loop, no timers',
               'private attributes are read for coverage accounting only']
REQUIRED = ['transitions', 'acts_after_terminal', 'samples', 'oneshot_callbacks_fired', 'recreated_with_broken_observers', 'failing_cleanup_runs', 'suite_edges', 'suite_processes', 'communicator_fault_runs', 'acts_in_exit_hooks']
ALPHABET = [['pause', 'p'], ['play'], ['kill', 'k'], ['resume', ['v']], ['fail', 'f'], ['soon_ok', 'c'], ['soon_raise', 'c']]
BOUNDS = {'quick': 'basic program family (14) K<=2 exhaustive over slots + 8 random programs (K=2 quarter-sampled)', 'thorough': 'K=3 exhaustive on 4 key programs, + 40 random programs, K=3 sampled'}


DEEP = ('wait_async', 'cont_async', 'out_async', 'wait2')  # thorough: K=3 exhaustive on these


def gen_cases(tier, seed):
    yield {'kind': 'suite', 'name': 'repository-suite', 'plan': []}
    # processes with a communicator whose announcement of a state change fails with one of the tolerated faults (closed connection,
    # invalid channel, timeout), or which loses the confirmation of an unsubscription at the end: the lifecycle is the same (the runs
    # are those of C16's fault enumeration, judged here by the lifecycle oracle)
    from pv.monitors import c16
    for c in c16.gen_cases(tier, seed):
        if c.get('kind') == 'bfault':
            yield dict(c, kind='comm-fault')
    for c in _gen_cases(tier, seed):
        yield c


def _gen_cases(tier, seed):
    progs = dict(programs.basic_programs())
    progs.update(programs.awkward_programs())
    rng = plans.rng_for(seed, 'c01')
    for n in range(40 if tier == 'thorough' else 8):
        progs['rnd%d' % n] = programs.random_program(rng, 5 if tier == 'thorough' else 4)
    for name, prog in sorted(progs.items()):
        n = plans.slots_of(prog)
        plist = [[]]
        plist += list(plans.all_placements(n, ALPHABET, 1))
        k2 = list(plans.all_placements(n, ALPHABET, 2))
        if tier == 'quick' and name.startswith('rnd'):
            k2 = k2[seed % 4::4]  # random programs: a quarter of the pairs (rotating with the seed); the basic family is exhaustive
        plist += k2
        # whoever drives the process gives up (the stepping task is cancelled, e.g. by a timeout), possibly while it is paused, and it is
        # terminated afterwards, with or without a new stepping task
        for s0 in range(0, n + 1):
            for end in (['kill', 'k'], ['fail', 'f']):
                plist.append([{'at': s0, 'act': ['pause', 'p']}, {'at': 'q', 'act': ['abort_task']}, {'at': 'q', 'act': end}])
                plist.append([{'at': s0, 'act': ['pause', 'p']}, {'at': 'q', 'act': ['abort_task']}, {'at': 'q', 'act': ['restart_task']}, {'at': 'q', 'act': end}])
                plist.append([{'at': s0, 'act': ['abort_task']}, {'at': 'q', 'act': end}])
                # ... terminated in the very loop iteration in which the stepping task was cancelled (the cancellation not delivered yet)
                plist.append([{'at': s0, 'act': ['pause', 'p']}, {'at': 'q', 'act': ['abort_task']}, {'at': 'q+', 'act': end}])
                plist.append([{'at': s0, 'act': ['abort_task']}, {'at': 'q+', 'act': end}])
                plist.append([{'at': s0, 'act': ['abort_task']}, {'at': 'q', 'act': ['restart_task']}, {'at': 'q', 'act': end}])
        # requests made from inside the process's own exit hooks, which do not raise (in the middle of a transition: the state being left
        # has not been left yet, the next one is not entered yet), alone and followed by a request at the next quiescent point
        for label, k in [('running', k) for k in range(1, len(prog['steps']) + 2)] + [('waiting', k) for k in (1, 2)]:
            for act in (['cancel_future'], ['pause', 'p'], ['play'], ['soon_ok', 'c'], ['soon_raise', 'c'], ['soon_kill', 'k']):
                plist.append([{'at': ['exit', label, k], 'act': act}])
                for end in (['kill', 'k2'], ['fail', 'f'], ['play'], ['resume', ['v']]):
                    plist.append([{'at': ['exit', label, k], 'act': act}, {'at': 'q', 'act': end}])
        # a holder of the process's future resolves it with an exception of their own while the process is live, alone and followed by a
        # request that lets the process go on
        for s0 in range(0, n + 1):
            plist.append([{'at': s0, 'act': ['foreign_exception', 'x']}])
            for end in (['resume', ['v']], ['play'], ['kill', 'k2'], ['pause', 'p']):
                plist.append([{'at': s0, 'act': ['foreign_exception', 'x']}, {'at': 'q', 'act': end}])
        if tier == 'thorough':
            plist += list(plans.sampled_placements(rng, n, ALPHABET, 3, 300))
        deep = ()
        if tier == 'thorough' and name in DEEP:
            deep = (p for p in plans.all_placements(n, [['pause', 'p'], ['play'], ['kill', 'k'], ['resume', ['v']], ['fail', 'f']], 3) if True)
        for i, plan in enumerate(itertools.chain(plist, deep)):
            yield {'name': name, 'program': prog, 'plan': plans.uniq(plan, 'q%d' % i), 'drain': True, 'barrage': True,
                          'probe': False, 'listener': True}
        # the same with an observer's one-shot state callback that unregisters itself from inside the notification
        for when in ('terminal', 'first'):
            for i, plan in enumerate([[]] + list(plans.all_placements(n, ALPHABET, 1))):
                yield {'name': name, 'program': prog, 'plan': plans.uniq(plan, 'o%d' % i), 'drain': True, 'barrage': True,
                       'probe': False, 'listener': True, 'oneshot': when}


        # the process is one recreated from a checkpoint and / or its observers and cleanups are broken (all tolerated faults: the
        # lifecycle is the same)
        for i, plan in enumerate([[]] + list(plans.all_placements(n, ALPHABET, 1))):
            for variant in ({'listener': 'raising-base'}, {'listener': 'checkpointing'}, {'recreate': 'created', 'listener': 'checkpointing'}, {'recreate': 'created', 'listener': 'raising'}, {'recreate': 'created', 'listener': 'raising-terminal'}, {'listener': 'raising-terminal'}, {'listener': 'raising', 'failing_cleanups': True}, {'listener': True, 'failing_cleanups': 'base'}, {'listener': 'detaching'},
                            {'recreate': 'created', 'listener': True, 'failing_cleanups': True}):
                yield dict({'name': name, 'program': prog, 'plan': plans.uniq(plan, 'r%d' % i), 'drain': True, 'barrage': True, 'probe': False}, **variant)


def run_suite(case):
    """The repository's own test suite under the same oracle (pv/suitemon.py): every state entered by every process the suite creates."""
    r = suiterun.run()
    obs = {'transitions': {}, 'samples': 0, 'acts_after_terminal': 0, 'acts': {}, 'suite_runs': 1, 'suite_processes': 0, 'suite_edges': 0, 'suite_hook_fault_edges': 0}
    if 'error' in r:
        return {'viol': [], 'obs': obs, 'inconclusive': r['error'], 'key': ['suite'], 'nontrivial': False}
    viol = []
    V = judges.V
    for rec in r['records']:
        if rec['kind'] == 'edge':
            obs['suite_edges'] += 1
            k = 'suite:%s->%s' % tuple(rec['edge'])
            obs['transitions'][k] = obs['transitions'].get(k, 0) + 1
            if rec['edge'][0] is None:
                obs['suite_processes'] += 1
        elif rec['kind'] == 'hook-fault-edge':
            obs['suite_hook_fault_edges'] += 1
        elif rec['kind'] == 'illegal-edge':
            viol.append(V('illegal-edge', 'illegal-edge:%s->%s:suite' % tuple(rec['edge']), 'in %s a %s went %s -> %s, which is not an edge of the lifecycle graph' % (
                rec['test'], rec['cls'], rec['edge'][0], rec['edge'][1])))
        elif rec['kind'] == 'entered-after-terminal':
            viol.append(V('terminal-changed', 'terminal-changed:%s->%s:suite' % (rec['terminal'], rec['edge'][1]), 'in %s a %s entered %s after the terminal state %s' % (
                rec['test'], rec['cls'], rec['edge'][1], rec['terminal'])))
    return {'viol': judges._dedupe(viol), 'obs': obs, 'inconclusive': None, 'key': ['suite'], 'nontrivial': True,
            'sample': {'workload': 'repository test suite under pv.suitemon', 'pytest': r['tail'], 'processes': obs['suite_processes'], 'edges': obs['suite_edges']}}


def run_comm_fault(case):
    from pv.monitors import c16
    obs = {'transitions': {}, 'samples': 0, 'acts_after_terminal': 0, 'acts': {}, 'communicator_fault_runs': 1}
    try:
        rec = c16.CommRun(dict(case, kind='bfault')).execute().record()
    except BaseException as exc:  # noqa: BLE001
        return {'viol': [judges.V('comm-fault-escaped', 'comm-fault-escaped:%s' % type(exc).__name__, 'a tolerated communicator fault (%s / %s) raised out of the run: %r' % (
            case.get('bfail'), case.get('unsub_fault'), exc))], 'obs': obs, 'key': ['comm-fault', case['name'], case.get('bfail'), case.get('unsub_fault'), case['wrap']], 'nontrivial': True}
    viol = judges.judge_c01(rec)
    for e in rec['events']:
        if e[0] == 'state':
            k = '%s->%s' % (e[1], e[2])
            obs['transitions'][k] = obs['transitions'].get(k, 0) + 1
        elif e[0] == 'obs':
            obs['samples'] += 1
    return {'viol': viol, 'obs': obs, 'inconclusive': rec['inconclusive'], 'key': ['comm-fault', case['name'], case.get('bfail'), case.get('unsub_fault'), case['wrap']],
            'nontrivial': bool(rec['final'] and rec['final']['terminated'])}


def run_case(case):
    if case.get('kind') == 'suite':
        return run_suite(case)
    if case.get('kind') == 'comm-fault':
        return run_comm_fault(case)
    rec = lifecycle.run_case(case)
    viol = judges.judge_c01(rec)
    obs = {'transitions': {}, 'samples': 0, 'acts_after_terminal': 0, 'acts': {}, 'oneshot_callbacks_fired': sum(1 for e in rec['events'] if e[0] == 'oneshot'),
           'recreated_with_broken_observers': int(bool(case.get('recreate')) and str(case.get('listener')).startswith('raising')), 'failing_cleanup_runs': int(bool(case.get('failing_cleanups')))}
    for e in rec['events']:
        if e[0] == 'state':
            k = '%s->%s' % (e[1], e[2])
            obs['transitions'][k] = obs['transitions'].get(k, 0) + 1
        elif e[0] == 'obs':
            obs['samples'] += 1
    for a in rec['acts']:
        if not a['live_before']:
            obs['acts_after_terminal'] += 1
        k = '%s@%s' % (a['kind'], a['phase'])
        obs['acts'][k] = obs['acts'].get(k, 0) + 1
        if str(a.get('via', '')).startswith('exit/'):
            k = '%s in on_exit_%s' % (a['kind'], a['via'].split('/')[1])
            obs.setdefault('acts_in_exit_hooks', {})
            obs['acts_in_exit_hooks'][k] = obs['acts_in_exit_hooks'].get(k, 0) + 1
    res = {'viol': viol, 'obs': obs, 'inconclusive': rec['inconclusive'],
           'key': [case['name'], case['plan'], case.get('oneshot'), case.get('recreate'), case.get('listener'), case.get('failing_cleanups')],
           'nontrivial': bool(case['plan']) and bool(rec['final'] and rec['final']['terminated'])}
    if not case['plan'] or viol:
        res['sample'] = {'program': case['name'], 'plan': case['plan'], 'final_state': rec['final']['state'] if rec['final'] else None,
                         'transitions': [e[1:] for e in rec['events'] if e[0] == 'state']}
    elif len(case['plan']) == 2:
        res['sample'] = {'program': case['name'], 'plan': case['plan'], 'final_state': rec['final']['state'] if rec['final'] else None,
                         'acts': [[a['kind'], a['phase'], a['ret']] for a in rec['acts']]}
    return res
