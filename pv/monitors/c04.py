"""C04 -- a kill request is never lost and no live process is unkillable."""
import itertools

from pv import judges, lifecycle, plans, programs

ID = 'C04'
TITLE = 'kill never lost / no unkillable process'
ANCHORS = ['plumpy.processes:Process.kill', 'plumpy.processes:Process._set_interrupt_action', 'plumpy.processes:Process._create_interrupt_action', 'plumpy.processes:Process.step', 'plumpy.process_states:Waiting.interrupt', 'plumpy.futures:CancellableAction.run']
LEVEL = 'exploration'
TECHNIQUE = 'runtime monitoring: history monitor on kill requests with bounded-progress check at loop quiescence and a final probing kill'
RULE = ('programs x sequences of K<=2 (thorough: sampled K=3,4) requests from {pause,play,resume,kill,cancel-future} containing a kill, at every '
        'loop-callback slot (same-slot both orders), from listener callbacks and from step functions; every live end configuration gets a '
        'probing kill; distinct by (program, plan); non-trivial when a kill was delivered to a live process')
RULE += ('; also: kills withdrawn by their requester (cancelled future), stepping task aborted with a kill pending, two listeners acting within one deferred request, recreated processes, workchains awaiting futures / children, future-cancel twins of every kill')
ASSUMPTIONS = ['steps complete without external stimulus (asyncio.sleep(0) yields only)', 'quiescence = empty ready queue, no timers']
REQUIRED = ['kill_after_abort', 'kill_recreated', 'kill_workchain', 'kill_live', 'quiescent_checks', 'kill_phase/unstarted', 'kill_phase/running-step', 'kill_phase/waiting-step', 'kill_phase/paused',
            'kill_phase/pausing', 'kill_phase/listener', 'custom_state_kills_while_blocked']
ALPHABET = [['pause', 'p'], ['play'], ['kill', 'k'], ['resume', ['v']], ['cancel_future']]
KILLS = ('kill', 'cancel_future')
LISTENER_EVENTS = ['running', 'waiting', 'paused', 'played', 'output']
BOUNDS = {'quick': 'basic program family, K<=2 exhaustive, K=3 over {pause,play,kill} within neighbouring slots, listener/step-issued kills K=1 (+1 slot request)',
          'thorough': 'K=3 exhaustive on 4 key programs, + 40 random programs, K=3/4 sampled'}


def _has_kill(plan):
    return any(e['act'][0] in KILLS for e in plan)


DEEP = ('wait_async', 'cont_async', 'out_async', 'wait2')  # thorough: K=3 exhaustive on these


CUSTOM_REQUESTS = (['kill'], ['cancel_future'], ['pause', 'kill'], ['kill', 'kill'], ['pause', 'play', 'kill'], ['kill', 'pause'], ['pause', 'cancel_future'],
                   ['kill', 'cancel_future'])


def gen_cases(tier, seed):
    for case in gen_wc_cases(tier, seed):
        yield case
    # a process with a state class of its own (``get_state_classes``): a RUNNING state whose interrupt() wakes up the step blocked in it --
    # the interruption is how that step comes to yield, so the kill must be delivered to the state object, whatever its label
    for reqs in CUSTOM_REQUESTS:
        for gap in (0, 1, 2):
            for spins in (1, 3):
                yield {'kind': 'custom-state', 'name': 'interruptible-running', 'requests': list(reqs), 'gap': gap, 'spins': spins, 'plan': []}
    progs = dict(programs.basic_programs())
    rng = plans.rng_for(seed, 'c04')
    for n in range(40 if tier == 'thorough' else 6):
        progs['rnd%d' % n] = programs.random_program(rng, 5)
    for name, prog in sorted(progs.items()):
        n = plans.slots_of(prog)
        plist = [p for p in plans.all_placements(n, ALPHABET, 1) if _has_kill(p)]
        plist += [p for p in plans.all_placements(n, ALPHABET, 2) if _has_kill(p)]
        # requests issued from listener callbacks and from inside step functions (alone, and preceded/followed by a slot request)
        trig = [['listener', ev, k] for ev in LISTENER_EVENTS for k in (1, 2)] + [['step', i] for i in range(len(prog['steps']))]
        for t in trig:
            for act in (['kill', 'k'], ['pause', 'p'], ['cancel_future']):
                base = {'at': t, 'act': act}
                if act[0] in KILLS:
                    plist.append([base])
                for other in ALPHABET:
                    if act[0] in KILLS or other[0] in KILLS:
                        for s in (range(0, n + 1) if tier == 'thorough' else range(0, n + 1, 2)):
                            plist.append([{'at': s, 'act': other}, base])
        # the kill comes from a callback of the process itself that was scheduled earlier (from outside, or by a step): a watchdog
        for s0 in range(0, n + 1):
            plist.append([{'at': s0, 'act': ['soon_kill', 'wd']}])
            plist.append([{'at': s0, 'act': ['pause', 'p']}, {'at': s0, 'act': ['soon_kill', 'wd']}])
        for i in range(len(prog['steps'])):
            plist.append([{'at': ['step', i], 'act': ['soon_kill', 'wd']}])
        # the instance is lost at a quiescent point and the process goes on in one recreated from a checkpoint: it is as killable
        Q = lambda *acts: [{'at': 'q', 'act': list(a)} for a in acts]  # noqa: E731
        plist += [Q(['reincarnate'], ['kill', 'k']), Q(['pause', 'p'], ['reincarnate'], ['kill', 'k']), Q(['reincarnate'], ['pause', 'p'], ['kill', 'k']),
                  Q(['reincarnate'], ['cancel_future']), [{'at': 1, 'act': ['pause', 'p']}] + Q(['reincarnate'], ['kill', 'k']),
                  Q(['reincarnate'], ['reincarnate'], ['kill', 'k']), Q(['reincarnate'], ['soon_kill', 'wd'])]
        # ... recreated from a checkpoint written by whoever gave up stepping the paused process (the stepping task cancelled, the
        # cancellation not delivered yet): as killable as any other paused process
        for s0 in range(0, n + 1, 2):
            plist.append([{'at': s0, 'act': ['pause', 'p']}, {'at': 'q', 'act': ['abort_task']}, {'at': 'q+', 'act': ['reincarnate']}, {'at': 'q', 'act': ['kill', 'k']}])
            plist.append([{'at': s0, 'act': ['pause', 'p']}, {'at': 'q', 'act': ['abort_task']}, {'at': 'q+', 'act': ['reincarnate']}, {'at': 'q+', 'act': ['kill', 'k']}])
        # the kill is requested by code whose current event loop is another one than the process's (a synchronous driver acting between two
        # slices of the loop): at the first quiescent points, and before the first step
        for j, fplan in enumerate([Q(['kill', 'k']), Q(['pause', 'p'], ['kill', 'k']), [{'at': 0, 'act': ['kill', 'k']}], [{'at': 0, 'act': ['pause', 'p']}] + Q(['kill', 'k'])]):
            yield {'name': name, 'program': prog, 'plan': plans.uniq(fplan, 'f%d' % j), 'drain': True, 'probe': True, 'listener': True, 'foreign_loop_outside': True}
        # two requests issued from listener callbacks in one run (the second possibly while the first is being carried out)
        for ev1, a1 in (('waiting', ['pause', 'p']), ('running', ['pause', 'p']), ('waiting', ['kill', 'k']), ('running', ['kill', 'k'])):
            for ev2, a2 in (('paused', ['kill', 'k']), ('paused', ['play']), ('played', ['kill', 'k']), ('waiting', ['kill', 'k']), ('running', ['kill', 'k']),
                            ('output', ['kill', 'k'])):
                for k1 in (1, 2):
                    if a1[0] in KILLS or a2[0] in KILLS:
                        plist.append([{'at': ['listener', ev1, k1], 'act': a1}, {'at': ['listener', ev2, 1], 'act': a2}])
                        plist.append([{'at': 1, 'act': ['pause', 'p']}, {'at': ['listener', ev1, k1], 'act': a1}, {'at': ['listener', ev2, 1], 'act': a2}])
        recreated = [p for p in plans.all_placements(n, ALPHABET, 1) if _has_kill(p)]
        recreated += [p for p in plans.all_placements(n, [['pause', 'p'], ['kill', 'k'], ['cancel_future']], 2) if _has_kill(p)]
        for i, plan in enumerate(recreated):
            yield {'name': name, 'program': prog, 'plan': plans.uniq(plan, 'rc%d' % i), 'drain': True, 'probe': True, 'barrage': False, 'listener': True,
                   'recreate': 'created'}
        # three requests within one step (same slot or neighbouring slots), every combination of pause / play / kill with a kill
        small = [['pause', 'p'], ['play'], ['kill', 'k']]
        for s0 in range(0, n + 1):
            for off in ((0, 0, 0), (0, 0, 1), (0, 1, 1), (0, 1, 2)):
                for combo in itertools.product(small, repeat=3):
                    if any(c[0] == 'kill' for c in combo):
                        plist.append([{'at': s0 + o, 'act': list(c)} for o, c in zip(off, combo)])
        # fault: the task stepping the process is aborted mid-step (a caller's timeout), then a kill arrives
        # (the kill is placed after the cancellation has been processed, i.e. at the following quiescent point: a request inside
        # the window between task.cancel() and its delivery is outside the property's quantifier, see DESIGN.md section 6)
        for s1 in range(0, n + 1):
            # (the same with the process paused when its stepping task is cancelled)
            plist.append([{'at': s1, 'act': ['pause', 'p']}, {'at': 'q', 'act': ['abort_task']}, {'at': 'q', 'act': ['kill', 'k']}])
            plist.append([{'at': s1, 'act': ['pause', 'p']}, {'at': 'q', 'act': ['abort_task']}, {'at': 'q', 'act': ['restart_task']}, {'at': 'q', 'act': ['kill', 'k']}])
        for s1 in range(1, n + 1):
            plist.append([{'at': s1, 'act': ['abort_task']}, {'at': 'q', 'act': ['kill', 'k']}])
            plist.append([{'at': s1, 'act': ['abort_task']}, {'at': 'q', 'act': ['pause', 'p']}, {'at': 'q', 'act': ['kill', 'k']}])
            plist.append([{'at': s1, 'act': ['abort_task']}, {'at': 'q', 'act': ['restart_task']}, {'at': 'q', 'act': ['kill', 'k']}])
        # the requester withdraws its kill (cancels the future kill() handed back, as asyncio.wait_for does on a timeout), or the
        # stepping task is aborted in the same loop iteration as the kill: the probing kill must still terminate the process
        for s1 in range(0, n + 1):
            for s2 in (s1, s1 + 1):
                plist.append([{'at': s1, 'act': ['kill', 'k']}, {'at': s2, 'act': ['cancel_ret', 'kill']}])
                for s3 in (s2, s2 + 1, s2 + 2):
                    plist.append([{'at': s1, 'act': ['kill', 'k']}, {'at': s2, 'act': ['cancel_ret', 'kill']}, {'at': s3, 'act': ['kill', 'again']}])
                plist.append([{'at': s1, 'act': ['kill', 'k']}, {'at': s2, 'act': ['cancel_ret', 'kill']}, {'at': s2, 'act': ['pause', 'p']}])
                # ... and after the withdrawal the process future is cancelled (the other way of asking for the kill)
                plist.append([{'at': s1, 'act': ['kill', 'k']}, {'at': s2, 'act': ['cancel_ret', 'kill']}, {'at': s2, 'act': ['cancel_future']}])
                # a pause while paused-and-abandoned: pause, the stepping task is cancelled, then the kill
                plist.append([{'at': s1, 'act': ['pause', 'p']}, {'at': s2, 'act': ['cancel_ret', 'pause']}, {'at': s2 + 1, 'act': ['kill', 'k']}])
            plist.append([{'at': s1, 'act': ['kill', 'k']}, {'at': s1, 'act': ['abort_task']}, {'at': 'q', 'act': ['restart_task']}])
            plist.append([{'at': s1, 'act': ['kill', 'k']}, {'at': s1, 'act': ['abort_task']}])
            plist.append([{'at': s1, 'act': ['kill', 'k']}, {'at': s1, 'act': ['abort_task']}, {'at': 'q', 'act': ['kill', 'again']}])
            plist.append([{'at': s1, 'act': ['kill', 'k']}, {'at': s1, 'act': ['abort_task']}, {'at': 'q', 'act': ['pause', 'p']}, {'at': 'q', 'act': ['kill', 'again']}])
        if tier == 'thorough':
            plist += [p for p in plans.sampled_placements(rng, n, ALPHABET, 3, 1500) if _has_kill(p)]
            plist += [p for p in plans.sampled_placements(rng, n, ALPHABET, 4, 800) if _has_kill(p)]
        deep = ()
        if tier == 'thorough' and name in DEEP:
            deep = (p for p in plans.all_placements(n, [['pause', 'p'], ['play'], ['kill', 'k'], ['resume', ['v']]], 3) if _has_kill(p))
        for i, plan in enumerate(itertools.chain(plist, deep)):
            yield {'name': name, 'program': prog, 'plan': plans.uniq(plan, 'q%d' % i), 'drain': True, 'probe': True,
                          'barrage': False, 'listener': True}


WC_PROGRAMS = ('n1_fr', 'n1_cc', 'n2_fr_cc', 'n2_cr_fc', 'reassign_child', 'oldchild_ret', 'samekey')
WC_ALPHABET = [['pause', 'p'], ['play'], ['kill', 'k'], ['cancel_future']]


def gen_wc_cases(tier, seed):
    """WorkChains blocked at a ToContext barrier (futures / children): kills placed among completions and pause / play."""
    from pv import wcprog
    from pv.monitors import c10
    rng = plans.rng_for(seed, 'c04wc')
    progs = c10._programs('quick')
    for name in WC_PROGRAMS:
        prog = progs.get(name)
        if prog is None:
            continue
        n = wcprog.run_case({'program': prog, 'plan': [], 'drain': True})['slots'] + 1
        extra = []
        for st in prog['steps']:
            for _k, idx, kind, _h in st['reg']:
                if kind == 'fut':
                    extra += [['complete', idx, ['value', 'v']], ['complete', idx, ['exc', 'e']]]
                else:
                    extra += [['child', idx, 'resume'], ['child', idx, 'kill']]
        plist = [p for p in plans.all_placements(n, WC_ALPHABET + extra, 1) if _has_kill(p)]
        two = [p for p in plans.all_placements(n, WC_ALPHABET + extra, 2) if _has_kill(p)]
        if tier == 'quick' and len(two) > 600:
            two = rng.sample(two, 600)
        plist += two
        if tier == 'thorough':
            plist += [p for p in plans.sampled_placements(rng, n, WC_ALPHABET + extra, 3, 1500) if _has_kill(p)]
        for i, plan in enumerate(plist):
            yield {'wc': True, 'name': 'wc:' + name, 'program': prog, 'plan': plans.uniq(plan, 'w%d' % i), 'drain': True, 'probe': True, 'barrage': False,
                   'listener': True}
        # the work chain is one recreated from the checkpoint of a freshly created one, killed before / around its first step
        for i, plan in enumerate([p for p in plans.all_placements(min(n, 3), [['kill', 'k'], ['pause', 'p'], ['cancel_future']], 2) if _has_kill(p)]
                                 + [[{'at': s, 'act': ['kill', 'k']}] for s in range(0, min(n, 3) + 1)]):
            yield {'wc': True, 'name': 'wc:' + name, 'program': prog, 'plan': plans.uniq(plan, 'wr%d' % i), 'drain': True, 'probe': True, 'barrage': False,
                   'listener': True, 'recreate': 'created'}


def _kill_phase(a):
    ph = a['phase'].split('/')
    out = []
    if a['via'].startswith('listener'):
        out.append('listener')
    if a['via'].startswith('step'):
        out.append('from-step')
    if 'unstarted' in ph:
        out.append('unstarted')
    if 'paused' in ph:
        out.append('paused')
    if 'pausing' in ph:
        out.append('pausing')
    if 'killing' in ph:
        out.append('killing')
    if 'woken' in ph:
        out.append('wait-woken')
    if 'stepping' in ph and ph[0] == 'running':
        out.append('running-step')
    if 'stepping' in ph and ph[0] == 'waiting':
        out.append('waiting-step')
    if 'stepping' not in ph and 'unstarted' not in ph and 'paused' not in ph:
        out.append('between-steps')
    return out


def run_custom_state(case):
    import asyncio

    import plumpy
    from plumpy import process_states
    from plumpy.process_comms import MESSAGE_TEXT_KEY

    class InterruptibleRunning(process_states.Running):
        def interrupt(self, reason):
            gate = self.process.gate
            if gate is not None and not gate.done():
                gate.set_exception(reason)

    class LongJob(plumpy.Process):
        gate = None
        entered = 0

        @classmethod
        def get_state_classes(cls):
            states = super().get_state_classes()
            states[plumpy.ProcessState.RUNNING] = InterruptibleRunning
            return states

        async def run(self):
            self.entered += 1
            self.gate = self.loop.create_future()
            await self.gate  # nothing completes this: the step yields when it is interrupted
            return 'done'

    loop = asyncio.new_event_loop()
    asyncio.set_event_loop(loop)
    V = judges.V
    viol = []
    obs = {'custom_state_runs': 1, 'custom_state_kills_while_blocked': 0, 'kill_live': 0}
    label = '>'.join(case['requests'])
    try:
        async def spin(n):
            for _ in range(n):
                await asyncio.sleep(0)

        async def scenario():
            proc = LongJob(loop=loop)
            task = asyncio.ensure_future(proc.step_until_terminated())
            await spin(case['spins'] + 2)
            if proc.state != plumpy.ProcessState.RUNNING or proc.gate is None:
                return 'set-up: the process is not inside its running step'
            rets = []
            first_text = None
            for n, req in enumerate(case['requests']):
                blocked = proc.gate is not None and not proc.gate.done() and not proc.paused
                try:
                    if req == 'kill':
                        obs['kill_live'] += int(not proc.has_terminated())
                        obs['custom_state_kills_while_blocked'] += int(blocked)
                        if first_text is None and not proc.has_terminated():
                            first_text = 'k%d' % n
                        rets.append(('kill', proc.kill('k%d' % n)))
                    elif req == 'cancel_future':
                        obs['kill_live'] += int(not proc.has_terminated())
                        obs['custom_state_kills_while_blocked'] += int(blocked)
                        if first_text is None and not proc.has_terminated():
                            first_text = 'Killed by future being cancelled'
                        proc.future().cancel()
                    elif req == 'pause':
                        rets.append(('pause', proc.pause('p%d' % n)))
                    elif req == 'play':
                        rets.append(('play', proc.play()))
                except Exception as exc:  # noqa: BLE001
                    viol.append(V('kill-raised' if req == 'kill' else 'request-raised', '%s-raised:custom-state:%s' % (req, type(exc).__name__),
                                  '%s() on a process blocked in its interruptible RUNNING state raised %r (requests %s)' % (req, exc, label)))
                await spin(case['gap'])
            await spin(20)
            if proc.paused and not proc.has_terminated():
                viol.append(V('kill-lost', 'kill-lost:custom-state:paused', 'after %s the process sits paused in %s: the kill was not carried out' % (label, proc.state.value)))
            elif proc.state != plumpy.ProcessState.KILLED:
                viol.append(V('kill-lost', 'kill-lost:custom-state:%s' % proc.state.value, 'a process blocked in a step of its own interruptible RUNNING state was asked to end '
                              '(%s); the step yields when it is interrupted, but the process is still %s after the loop ran dry' % (label, proc.state.value)))
                again = proc.kill('again')
                await spin(20)
                if proc.state != plumpy.ProcessState.KILLED:
                    viol.append(V('unkillable', 'unkillable:custom-state', 'and a further kill() (returned %r) does not end it either' % (again,)))
            else:
                text = proc.killed_msg()[MESSAGE_TEXT_KEY]
                if text != first_text:
                    viol.append(V('kill-text', 'kill-text:custom-state', 'killed with text %r, the first request to end it said %r (%s)' % (text, first_text, label)))
                if not task.done():
                    viol.append(V('stepper-stuck', 'stepper-stuck:custom-state', 'KILLED but step_until_terminated() has not returned'))
            for what, ret in rets:
                if what == 'kill' and asyncio.isfuture(ret):
                    if not ret.done():
                        viol.append(V('kill-future-pending', 'kill-future-pending:custom-state', 'the future returned by kill() never resolved (%s, final %s)' % (label, proc.state.value)))
                    elif not ret.cancelled() and ret.exception() is None and ret.result() is not (proc.state == plumpy.ProcessState.KILLED):
                        viol.append(V('kill-future-wrong', 'kill-future-wrong:custom-state', 'kill() future says %r, process is %s' % (ret.result(), proc.state.value)))
            if not task.done():
                task.cancel()
                try:
                    await task
                except BaseException:  # noqa: BLE001
                    pass
            return None

        incon = loop.run_until_complete(asyncio.wait_for(scenario(), 5))
    except asyncio.TimeoutError:
        incon = 'watchdog'
    finally:
        asyncio.set_event_loop(None)
        loop.close()
    return {'viol': judges._dedupe(viol), 'obs': obs, 'inconclusive': incon, 'key': ['custom-state', case['requests'], case['gap'], case['spins']],
            'nontrivial': obs['custom_state_kills_while_blocked'] > 0, 'sample': {'program': 'interruptible-running', 'requests': case['requests']}}


def run_case(case):
    if case.get('kind') == 'custom-state':
        return run_custom_state(case)
    if case.get('wc'):
        from pv import wcprog
        rec = wcprog.run_case(case)
    else:
        rec = lifecycle.run_case(case)
    viol = judges.judge_c04(rec)
    if not case.get('wc') and not case.get('recreate') and rec['final'] and any(e['act'][0] == 'cancel_future' for e in case['plan']) and all(
            isinstance(e['at'], int) for e in case['plan']) and len(case['plan']) <= 2:
        # "cancelling the process's future has the same effect as kill()": the same plan with kill() in its place ends in the same state
        twin_plan = [dict(e, act=['kill', 'Killed by future being cancelled'] if e['act'][0] == 'cancel_future' else list(e['act'])) for e in case['plan']]
        twin = lifecycle.run_case(dict(case, plan=twin_plan))
        if twin['final'] and not rec['inconclusive'] and not twin['inconclusive']:
            a, b = rec['final'], twin['final']
            if (a['state'], a['exception']) != (b['state'], b['exception']):
                viol.append(judges.V('cancel-differs-from-kill', 'cancel-differs-from-kill:%s!=%s' % (a['state'], b['state']),
                                     'cancelling the future ended %s (%s), kill() at the same point ended %s (%s); plan %s' % (
                                         a['state'], a['exception'], b['state'], b['exception'], case['plan'])))
    obs = {'kill_live': 0, 'kill_phase': {}, 'quiescent_checks': 0, 'probe_kills': 0, 'final': {}, 'kill_returns': {}}
    first = None
    for a in rec['acts']:
        if a['kind'] in KILLS and a['live_before']:
            obs['kill_live'] += 1
            if first is None:
                first = a['n']
            if a['via'] == 'probe':
                obs['probe_kills'] += 1
            for ph in _kill_phase(a):
                obs['kill_phase'][ph] = obs['kill_phase'].get(ph, 0) + 1
            r = a['ret'][0] if a['ret'][0] != 'value' else str(a['ret'][1])
            obs['kill_returns'][r] = obs['kill_returns'].get(r, 0) + 1
    obs['kill_workchain'] = int(bool(case.get('wc')) and first is not None)
    obs['kill_recreated'] = int(bool(case.get('recreate')) and first is not None)
    obs['kill_after_abort'] = int(any(a['kind'] == 'abort_task' for a in rec['acts']) and first is not None)
    if first is not None:
        obs['quiescent_checks'] = sum(1 for q in rec['qpoints'] if q['nacts'] > first)
    if rec['final']:
        obs['final'][rec['final']['state']] = 1
    res = {'viol': viol, 'obs': obs, 'inconclusive': rec['inconclusive'], 'key': [case['name'], case['plan'], case.get('recreate')],
           'nontrivial': first is not None}
    res['sample'] = {'program': case['name'], 'plan': case['plan'], 'final_state': rec['final']['state'] if rec['final'] else None,
                     'acts': [[a['kind'], a['via'], a['phase'], a['ret']] for a in rec['acts']], 'kill_futures': rec['futs']}
    return res
