"""C16 -- remote control equals direct control; each transition announced once, in order."""
import sys
import threading

import kiwipy
import plumpy
from aio_pika.exceptions import ChannelInvalidStateError, ConnectionClosed
from plumpy import communications, futures
from plumpy import process_comms as pc

from pv import comm, judges, lifecycle, plans, programs
from pv.programs import _jsonable

ID = 'C16'
TITLE = 'remote control == direct control; state changes announced once, in order'
ANCHORS = ['plumpy.processes:Process.message_receive', 'plumpy.processes:Process.broadcast_receive', 'plumpy.processes:Process._schedule_rpc', 'plumpy.processes:Process.on_entered', 'plumpy.process_comms:RemoteProcessThreadController.pause_process', 'plumpy.process_comms:RemoteProcessThreadController.kill_all', 'plumpy.communications:convert_to_comm', 'plumpy.communications:plum_to_kiwi_future']
LEVEL = 'exploration'
TECHNIQUE = ('runtime monitoring by twin differential: a process controlled through an in-process RabbitMQ-shaped communicator (RPC and broadcast '
             'pause/play/kill/status via the real controllers) is compared with a twin receiving the direct call at the logical position where '
             'the message handler ran; an independent broadcast subscriber checks the announcement log; broadcast failures are injected at every '
             'transition (fault enumeration)')
RULE = ('programs x sequences of K<=2 control messages {rpc pause/play/kill/status, broadcast pause/play/kill} at every loop-callback slot (same '
        'slot both orders), raw stand-in communicator and LoopCommunicator-wrapped; twin = same program, no communicator, direct call at the '
        'handler\'s logical position; plus for every transition index x {ConnectionClosed, ChannelInvalidStateError, TimeoutError} one run with '
        'that broadcast failing; thorough adds delivery from a communicator thread; distinct by (program, plan, wrap); non-trivial when a '
        'handler ran on a live process')
RULE += ('; also: replies dropped by the transport, broadcasts delivered by keyword, processes recreated from a terminal checkpoint, messages sent from a communicator thread while the loop is blocked in its selector')
ASSUMPTIONS = ['the RabbitMQ transport itself is replaced by an in-process communicator that follows its observable protocol (pv/comm.py)',
               'an exception raised by a handler may reach the sender wrapped in RemoteException']
REQUIRED = ['unreferenced_processes', 'falsy_process_ids', 'recreated_with_cancelled_future', 'empty_texts_compared', 'handlers_ran', 'twin_compared', 'replies_compared', 'announcements_checked', 'intent/pause', 'intent/play', 'intent/kill', 'intent/status',
            'via/rpc', 'via/bcast', 'wrap/raw', 'wrap/loop', 'broadcast_faults', 'after_termination_checks', 'in_step_deliveries', 'idle_deliveries', 'idle_thread_runs', 'dropped_replies', 'recreated_terminal_checks', 'unsubscribe_faults', 'own_subscription_handles', 'own_state_transitions', 'subscription_faults']
BOUNDS = {'quick': '6 programs, K<=2 messages (K=2 sampled 1/3), all broadcast fault points', 'thorough': '14 programs + thread-mode delivery (400 runs)'}
MSGS = [['rpc', 'pause', 'rp'], ['rpc', 'play', None], ['rpc', 'kill', 'rk'], ['rpc', 'status', None], ['bcast', 'pause', 'bp'], ['bcast', 'play', None],
        ['bcast', 'kill', 'bk'],
        # (requests without a message text: the controllers' methods take the text as an optional argument)
        ['bcast', 'kill', None], ['bcast', 'pause', None], ['rpc', 'kill', None],
        # (... and with an empty one: a text like any other -- it replaces the status while paused, it is the text of the kill message)
        ['rpc', 'pause', ''], ['rpc', 'kill', ''], ['bcast', 'pause', ''],
        # (broadcasts signed with the id of the process that receives them)
        ['bcast', 'pause', 'sp', 'signed'], ['bcast', 'kill', 'sk', 'signed'], ['bcast', 'play', None, 'signed']]
# what a communicator raises when it cannot deliver an announcement: the connection or channel is gone, the broker does not answer in time,
# or the communicator object itself has been closed (at the shutdown of whatever runs the processes) while the process is still alive
TOLERATED = {'closed': lambda: ConnectionClosed('closed'), 'channel': lambda: ChannelInvalidStateError('invalid'), 'timeout': lambda: kiwipy.TimeoutError('timeout'),
             'commclosed': lambda: kiwipy.CommunicatorClosed()}


def _desc(fut):
    """Fully unwrapped description of a reply future."""
    if fut is None:
        return None
    u = futures.unwrap_kiwi_future(fut)
    return u


class CommRun(lifecycle.Run):
    """Run A: the process has a communicator; plan actions are messages."""

    def _construct(self, cls, loop):
        self.base = comm.RmqShaped()
        self.base.keyword_delivery = bool(self.case.get('kwdeliver'))
        self.base.own_ids = bool(self.case.get('own_ids'))
        for idx, kind in (self.case.get('bfail') or {}).items():
            self.base.fail_broadcast[int(idx)] = TOLERATED[kind]()
        if self.case.get('unsub_fault'):
            self.base.fail_remove_rpc = TOLERATED[self.case['unsub_fault']]()
        self.announced = []
        self.base.add_broadcast_subscriber(lambda c, body, sender, subject, correlation_id: self.announced.append([sender, subject]))
        if self.case.get('sub_fault'):
            # the process's request for its broadcast subscription times out (tolerated, logged): it lives without that subscription, and
            # what it did subscribe to is given up at the end all the same
            self.base.fail_add_broadcast = kiwipy.TimeoutError('no answer to the subscription request')
        if self.case.get('wrap') == 'implicit':
            # (wrapped without naming the loop, in the thread whose current loop is the one that serves the process)
            communicator = communications.LoopCommunicator(self.base)
        else:
            communicator = communications.LoopCommunicator(self.base, loop) if self.case.get('wrap') else self.base
        self.ctl = pc.RemoteProcessThreadController(self.base)
        self.handler_calls = []
        self.status_calls = []
        self.replies = []
        if self.case.get('recreate_cancelled'):
            proc = self._recreated_with_cancelled_future(cls, loop, communicator, pid=self.case.get('pid', 4242))
        else:
            proc = cls(loop=loop, communicator=communicator, pid=self.case.get('pid', 4242))
        for name in ('pause', 'play', 'kill'):
            setattr(proc, name, self._wrap(proc, name, getattr(proc, name)))
        orig_status = proc.get_status_info

        def status(out):
            orig_status(out)
            self.status_calls.append([self.nproc_events(), dict(out)])

        proc.get_status_info = status
        return proc

    def _wrap(self, proc, name, orig):
        def handler(*args, **kwargs):
            if getattr(self, '_direct', False):
                return orig(*args, **kwargs)  # called by the harness itself (drain), not on behalf of a message
            if sys._getframe(1).f_code.co_name in ('try_killing', 'step'):
                return orig(*args, **kwargs)  # the process's own kill of itself (its future was cancelled), not a message either
            entry = {'name': name, 'args': _jsonable([list(args), kwargs]), 'pos': self.nproc_events(), 'live': not proc.has_terminated(),
                     'phase': lifecycle.phase_of(proc, self.task is not None)}
            self.handler_calls.append(entry)
            try:
                ret = orig(*args, **kwargs)
            except BaseException as exc:  # noqa: BLE001
                entry['ret'] = ['raise', lifecycle.describe_exc(exc)]
                raise
            entry['ret'] = ['future'] if hasattr(ret, 'add_done_callback') else ['value', _jsonable(ret)]
            if hasattr(ret, 'add_done_callback'):
                entry['fut'] = ret
            return ret

        handler.__name__ = name
        return handler

    def apply(self, act, via='slot', plan_idx=None):
        if act[0] not in ('rpc', 'bcast'):
            self._direct = True
            try:
                return super().apply(act, via, plan_idx)
            finally:
                self._direct = False
        proc = self.proc
        entry = {'n': len(self.acts), 'plan_idx': plan_idx, 'slot': self.drv.slot, 'via': via, 'kind': act[0], 'arg': _jsonable(act[1:]),
                 'phase': lifecycle.phase_of(proc, self.task is not None), 'live_before': not proc.has_terminated(), 'state_before': proc.state.value,
                 'paused_before': proc.paused, 'status_before': proc.status, 'nstate': 0, 'nwait': 0}
        self.acts.append(entry)
        self.rec.ev('act', entry['n'], act[0], _jsonable(act[1:]), entry['phase'])
        try:
            intent, text = act[1], act[2]
            if act[0] == 'rpc':
                fut = {'pause': lambda: self.ctl.pause_process(proc.pid, text), 'play': lambda: self.ctl.play_process(proc.pid),
                       'kill': lambda: self.ctl.kill_process(proc.pid, text), 'status': lambda: self.ctl.get_status(proc.pid)}[intent]()
                self.replies.append([entry['n'], intent, futures.unwrap_kiwi_future(fut)])
                entry['ret'] = ['future']
                if len(act) > 3 and act[3] == 'drop-reply':
                    # the sender gives up on the answer right away (with an in-process communicator that cancels the very future the
                    # process handed back): the request itself stands and must be carried out like the direct call
                    res = getattr(self.base, 'last_rpc_result', None)
                    if hasattr(res, 'cancel'):
                        entry['reply_dropped'] = bool(res.cancel())
            elif len(act) > 3 and act[3] == 'signed':
                # a broadcast that names its sender, and the sender is the process's own id (an application that lets every process sign
                # what it sends, a parent asking "all of us" to stop): whom a broadcast comes from does not decide whether it is obeyed
                msg = {'pause': pc.MessageBuilder.pause, 'play': pc.MessageBuilder.play, 'kill': pc.MessageBuilder.kill}[intent](text)
                subject = {'pause': pc.Intent.PAUSE, 'play': pc.Intent.PLAY, 'kill': pc.Intent.KILL}[intent]
                self.base.broadcast_send(msg, sender=proc.pid, subject=subject)
                entry['ret'] = ['value', None]
            else:
                {'pause': lambda: self.ctl.pause_all(text), 'play': self.ctl.play_all, 'kill': lambda: self.ctl.kill_all(text)}[intent]()
                entry['ret'] = ['value', None]
        except BaseException as exc:  # noqa: BLE001
            entry['ret'] = ['raise', lifecycle.describe_exc(exc)]
        entry['state_after'] = proc.state.value
        entry['paused_after'] = proc.paused
        entry['status_after'] = proc.status
        entry['term_after'] = proc.has_terminated()
        self.rec.ev('acted', entry['n'], entry['ret'][0], entry['state_after'], entry['paused_after'])
        self.sample('act%d' % entry['n'])
        return entry

    def _collect_extra(self):
        replies = []
        for n, intent, fut in self.replies:
            replies.append([n, intent, _reply_desc(fut)])
        calls = []
        for c in self.handler_calls:
            d = {k: v for k, v in c.items() if k != 'fut'}
            if 'fut' in c:
                d['fut_desc'] = lifecycle.describe_future(c['fut'])
            calls.append(d)
        # after termination: the process no longer receives messages
        after = {}
        if self.proc.has_terminated():
            try:
                self.ctl.pause_process(self.proc.pid, 'late')
                after['rpc'] = 'routed'
            except kiwipy.UnroutableError:
                after['rpc'] = 'unroutable'
            except BaseException as exc:  # noqa: BLE001
                after['rpc'] = 'error:%s' % type(exc).__name__
            n = len(self.handler_calls)
            self.ctl.pause_all('late')
            self.ctl.kill_all('late')
            self.drv.pump()
            after['broadcast_handlers'] = len(self.handler_calls) - n
            # the same for the process recreated from its (terminal) checkpoint with a communicator
            try:
                comm_obj = self.proc._communicator
                clone = plumpy.Bundle(self.proc).unbundle(plumpy.LoadSaveContext(loop=self.drv.loop, communicator=comm_obj))
                seen = []
                for name in ('pause', 'play', 'kill'):
                    setattr(clone, name, (lambda *a, _n=name, **k: seen.append(_n) or False))
                try:
                    self.ctl.pause_process(clone.pid, 'late-clone')
                    after['clone_rpc'] = 'routed'
                except kiwipy.UnroutableError:
                    after['clone_rpc'] = 'unroutable'
                self.ctl.kill_all('late-clone')
                self.drv.pump()
                after['clone_handlers'] = len(seen)
            except BaseException as exc:  # noqa: BLE001
                after['clone_error'] = '%s: %s' % (type(exc).__name__, exc)
        return {'replies': replies, 'handler_calls': calls, 'status_calls': self.status_calls, 'announced': _jsonable(self.announced), 'after': after,
                'receiver_errors': list(self.base.receiver_errors)}


def _reply_desc(fut):
    if not fut.done():
        return ['pending']
    if fut.cancelled():
        return ['cancelled']
    exc = fut.exception()
    if exc is not None:
        inner = exc.__cause__ if isinstance(exc, kiwipy.RemoteException) and exc.__cause__ is not None else exc
        return ['exception', type(inner).__name__]
    return ['result', _jsonable(fut.result())]


def _programs(tier):
    P = programs.basic_programs()
    names = ['cont_async', 'wait_async', 'wait2', 'raise_async', 'killcmd', 'sync1'] if tier == 'quick' else sorted(P)
    return {k: P[k] for k in names}


OWN_STATE_REQUESTS = ([], ['pause', 'play'], ['kill'], ['pause', 'kill'], ['pause', 'play', 'pause', 'play'])


def gen_cases(tier, seed):
    # a process with a state class of the application's own (labelled by the application's own enum) between CREATED and RUNNING:
    # the transitions into and out of it are announced like any other
    for reqs in OWN_STATE_REQUESTS:
        for gap in (0, 1, 2):
            # (the label type of the state machine admits enums and plain strings)
            for label in ('enum', 'str'):
                yield {'kind': 'own-state', 'requests': list(reqs), 'gap': gap, 'plan': [], 'wrap': False, 'label': label}
    for wrap in (False, True):
        yield {'kind': 'unreferenced', 'wrap': wrap}
    rng = plans.rng_for(seed, 'c16')
    for name, prog in sorted(_programs(tier).items()):
        n = plans.slots_of(prog)
        for wrap in (False, True):
            plist = [[]]
            plist += [[{'at': s, 'act': m}] for s in range(0, n + 2) for m in MSGS]
            k2 = [[{'at': s1, 'act': m1}, {'at': s2, 'act': m2}] for s1 in range(0, n + 2) for s2 in range(s1, n + 2) for m1 in MSGS for m2 in MSGS]
            if tier == 'quick':
                k2 = k2[(seed + int(wrap)) % 3::3]
            plist += k2
            # the sender drops the reply future as soon as the message is delivered
            plist += [[{'at': s, 'act': list(m) + ['drop-reply']}] for s in range(0, n + 2) for m in MSGS if m[0] == 'rpc' and m[1] != 'status']
            # the communicator hands broadcasts over by keyword (as kiwipy.LocalCommunicator does) instead of positionally
            for plan in [[]] + [[{'at': s, 'act': m}] for s in range(0, n + 2) for m in MSGS if m[0] == 'bcast']:
                yield {'kind': 'twin', 'name': name, 'program': prog, 'plan': [dict(e, act=list(e['act'])) for e in plan], 'wrap': wrap,
                       'drain': True, 'listener': False, 'kwdeliver': True}
            for i, plan in enumerate(plist):
                yield {'kind': 'twin', 'name': name, 'program': prog, 'plan': [dict(e, act=list(e['act'])) for e in plan], 'wrap': wrap,
                       'drain': True, 'listener': False}
            # the application's on_terminated fails after the library's part of it: the process leaves the terminal state it had reached
            # for EXCEPTED, closed as it is -- a transition like any other, announced like any other
            for plan in [[]] + [[{'at': s, 'act': m}] for s in range(0, n + 2) for m in MSGS[:7]]:
                yield {'kind': 'twin', 'name': name, 'program': prog, 'plan': [dict(e, act=list(e['act'])) for e in plan], 'wrap': wrap,
                       'drain': True, 'listener': False, 'late_fault': True}
            # the process is one recreated (with the communicator) from a checkpoint written just after its future had been cancelled by
            # whoever held it: alive until its next step carries out the kill, and reachable like any live process
            for plan in [[]] + [[{'at': s, 'act': m}] for s in (0, 1) for m in MSGS] + [[{'at': 0, 'act': m1}, {'at': 0, 'act': m2}] for m1 in MSGS[:4] for m2 in MSGS[:4]]:
                yield {'kind': 'twin', 'name': name, 'program': prog, 'plan': [dict(e, act=list(e['act'])) for e in plan], 'wrap': wrap,
                       'drain': True, 'listener': False, 'recreate_cancelled': True}
            # a process whose id is falsy (0, as a counter that starts there gives): addressed and announced like any other
            for plan in [[]] + [[{'at': s, 'act': m}] for s in (0, 1, 2) for m in MSGS[:7]]:
                yield {'kind': 'twin', 'name': name, 'program': prog, 'plan': [dict(e, act=list(e['act'])) for e in plan], 'wrap': wrap,
                       'drain': True, 'listener': False, 'pid': 0}
            # a communicator that hands out subscription handles of its own
            for i, plan in enumerate(plist[:: max(1, len(plist) // 12)]):
                yield {'kind': 'twin', 'name': name, 'program': prog, 'plan': [dict(e, act=list(e['act'])) for e in plan], 'wrap': wrap,
                       'drain': True, 'listener': False, 'own_ids': True}
            # broadcast faults: every transition index x tolerated kind
            ref = plans.reference(prog)
            ntrans = sum(1 for e in ref['events'] if e[0] == 'state')
            for idx in range(1, ntrans + 1):
                for kind in sorted(TOLERATED):
                    yield {'kind': 'bfault', 'name': name, 'program': prog, 'plan': [], 'wrap': wrap, 'bfail': {str(idx): kind}, 'drain': True, 'listener': False}
            # the confirmation of the first unsubscription at termination is lost (tolerated kinds): the other subscriptions are given up
            # all the same, the terminated process is not reachable
            for kind in sorted(TOLERATED):
                yield {'kind': 'bfault', 'name': name, 'program': prog, 'plan': [], 'wrap': wrap, 'bfail': {}, 'unsub_fault': kind, 'drain': True, 'listener': False}
            # the request for the broadcast subscription times out when the process is set up
            yield {'kind': 'bfault', 'name': name, 'program': prog, 'plan': [], 'wrap': wrap, 'bfail': {}, 'sub_fault': 'timeout', 'drain': True, 'listener': False}
    # a message sent from a communicator thread while the loop is idle (blocked waiting for events) must still be handled
    P = programs.basic_programs()
    for wrap in (False, True, 'implicit'):
        for m in (['rpc', 'pause', 'ip'], ['rpc', 'kill', 'ik'], ['rpc', 'status', None], ['bcast', 'kill', 'ibk']):
            yield {'kind': 'idle', 'name': 'wait1', 'program': P['wait1'], 'msg': m, 'wrap': wrap}
        for m in (['rpc', 'play', None], ['bcast', 'play', None]):
            yield {'kind': 'idle', 'name': 'wait1', 'program': P['wait1'], 'msg': m, 'wrap': wrap, 'prep': ['pause', 'resume']}
    if tier == 'thorough':
        for i in range(400):
            name = rng.choice(sorted(P))
            msgs = [list(rng.choice(MSGS)) for _ in range(rng.randint(1, 3))]
            yield {'kind': 'thread', 'name': name, 'program': P[name], 'msgs': msgs, 'wrap': rng.random() < 0.5, 'delay': rng.choice([0, 0, 1, 3])}


def _summary(rec):
    fin = rec['final']
    return {'state': fin['state'], 'paused': fin['paused'], 'status': fin['status'], 'result': fin['result'], 'exception': fin['exception'],
            'killed_msg': fin['killed_msg'], 'outputs': fin['outputs'],
            'steps': [[e[2], e[5], e[6]] for e in rec['events'] if e[0] == 'trace' and e[1] == 'enter'],
            'transitions': [e[1:] for e in rec['events'] if e[0] == 'state']}


def run_idle(case):
    """The loop is really idle (run_forever blocked in its selector); another thread sends one message and waits for the effect."""
    import time
    from pv.driver import Driver
    V = judges.V
    obs = {'idle_thread_runs': 1, 'wrap': {('loop' if case['wrap'] else 'raw'): 1}}
    run = CommRun({'program': case['program'], 'plan': [], 'wrap': case['wrap'], 'drain': False, 'listener': False})
    run._load_plan()
    run.extra_tasks = []
    viol = []
    with Driver(100000) as drv:
        run.drv = drv
        programs.CURRENT_REC = run.rec
        try:
            run.proc = proc = run._construct(run._make_class(), drv.loop)
        finally:
            programs.CURRENT_REC = None
        run.task = drv.loop.create_task(proc.step_until_terminated())
        drv.pump()  # the process now waits; nothing is scheduled
        for prep in case.get('prep', ()):
            # e.g. paused, then resumed while paused: the play that arrives over the communicator is what lets it finish
            run._direct = True
            try:
                getattr(proc, prep)(*(['idle-prep'] if prep != 'play' else []))
            finally:
                run._direct = False
            drv.pump()
        m = case['msg']
        outcome = {}

        # the selector tells when the loop thread blocks without a timeout, i.e. is really idle (a fixed sleep is not
        # enough on a loaded machine: a message that arrives while the loop still runs callbacks is handled anyway)
        blocked = threading.Event()
        selector = drv.loop._selector
        orig_select = selector.select

        def select(timeout=None):
            if timeout is None:
                blocked.set()
            return orig_select(timeout)

        selector.select = select

        def sender():
            outcome['loop_seen_idle'] = blocked.wait(20)
            time.sleep(0.02)
            t0 = time.time()
            try:
                reply = None
                if m[0] == 'rpc':
                    fut = {'pause': lambda: run.ctl.pause_process(proc.pid, m[2]), 'kill': lambda: run.ctl.kill_process(proc.pid, m[2]),
                           'play': lambda: run.ctl.play_process(proc.pid), 'status': lambda: run.ctl.get_status(proc.pid)}[m[1]]()
                    reply = futures.unwrap_kiwi_future(fut)
                elif m[1] == 'play':
                    run.ctl.play_all()
                else:
                    run.ctl.kill_all(m[2])
                # generous wall-clock watchdog (the operation takes about a millisecond when the loop is woken up)
                while time.time() - t0 < 20:
                    handled = (reply.done() if reply is not None else bool(run.handler_calls)) and (m[1] == 'status' or bool(run.handler_calls))
                    if case.get('prep') and m[1] == 'play':
                        handled = handled and proc.has_terminated()  # the resumed process was only waiting for the play
                    if handled:
                        break
                    time.sleep(0.002)
                outcome['handled_in_time'] = handled
                outcome['waited'] = round(time.time() - t0, 3)
                outcome['reply'] = _reply_desc(reply) if reply is not None else None
            finally:
                drv.loop.call_soon_threadsafe(drv.loop.stop)

        th = threading.Thread(target=sender)
        th.start()
        drv.loop.run_forever()
        th.join(15)
        drv.pump()
    if not outcome.get('loop_seen_idle'):
        return {'viol': [], 'obs': obs, 'inconclusive': 'loop-never-idle', 'key': case, 'nontrivial': False}
    if not outcome.get('handled_in_time'):
        viol.append(V('idle-delivery-lost', 'idle-delivery-lost:%s:%s' % (m[0], 'loop' if case['wrap'] else 'raw'),
                      'a %s %s message sent from another thread while the loop was idle was not handled within %ss (reply %s)' % (
                          m[0], m[1], outcome.get('waited'), outcome.get('reply'))))
    return {'viol': viol, 'obs': obs, 'key': case, 'nontrivial': True,
            'sample': {'idle_thread_message': m, 'wrap': case['wrap'], 'outcome': outcome}}


def run_own_state(case):
    import asyncio
    import enum

    from plumpy import process_states
    from plumpy.base import state_machine

    class AppState(enum.Enum):
        HELD = 'held'

    HELD = AppState.HELD if case.get('label', 'enum') == 'enum' else 'held'

    def text(label):
        return label.value if isinstance(label, enum.Enum) else label

    class Held(process_states.State):
        LABEL = HELD
        ALLOWED = {plumpy.ProcessState.RUNNING, plumpy.ProcessState.KILLED, plumpy.ProcessState.EXCEPTED}

        def __init__(self, process, run_fn):
            super().__init__(process)
            self.run_fn = run_fn

        async def execute(self):
            await asyncio.sleep(0)
            return self.create_state(plumpy.ProcessState.RUNNING, self.run_fn)

    class Created(process_states.Created):
        ALLOWED = process_states.Created.ALLOWED | {HELD}

        def execute(self):
            return self.create_state(HELD, self.run_fn)

    class HeldProcess(plumpy.Process):
        @classmethod
        def get_state_classes(cls):
            states = dict(super().get_state_classes())
            states[plumpy.ProcessState.CREATED] = Created
            states[HELD] = Held
            return states

        async def run(self):
            await asyncio.sleep(0)
            return plumpy.Continue(self.second)

        def second(self):
            return 7

    class Recording:
        def __init__(self):
            self.announced = []

        def add_rpc_subscriber(self, subscriber, identifier=None):
            return identifier

        def add_broadcast_subscriber(self, subscriber, identifier=None):
            return identifier

        def remove_rpc_subscriber(self, identifier):
            pass

        def remove_broadcast_subscriber(self, identifier):
            pass

        def broadcast_send(self, body, sender=None, subject=None, correlation_id=None):
            self.announced.append([sender, subject])
            return True

        def __len__(self):
            # (a communicator that can say how many subscribers it has -- none here, so it is falsy; it is there all the same)
            return 0 if case['gap'] == 1 else 1

    V = judges.V
    viol = []
    obs = {'own_state_runs': 1, 'own_state_transitions': 0}
    loop = asyncio.new_event_loop()
    asyncio.set_event_loop(loop)
    incon = None
    try:
        comm = Recording()
        proc = HeldProcess(pid=4242, communicator=comm, loop=loop)
        entered = [[None, 'created']]
        proc.add_state_event_callback(state_machine.StateEventHook.ENTERED_STATE,
                                      lambda machine, _hook, from_state: entered.append([text(from_state.LABEL), text(machine.state)]))

        async def scenario():
            task = asyncio.ensure_future(proc.step_until_terminated())
            await asyncio.sleep(0)
            for req in case['requests']:
                if proc.has_terminated():
                    break
                getattr(proc, req)(*(['m'] if req != 'play' else []))
                for _ in range(case['gap']):
                    await asyncio.sleep(0)
            for _ in range(30):
                if proc.paused and not proc.has_terminated():
                    proc.play()
                if task.done():
                    break
                await asyncio.sleep(0)
            if not task.done():
                task.cancel()
                return 'the process did not terminate'
            return None

        incon = loop.run_until_complete(asyncio.wait_for(scenario(), 5))
        expected = [[4242, 'state_changed.%s.%s' % tuple(pair)] for pair in entered]
        obs['own_state_transitions'] = sum(1 for a, b in entered if 'held' in (a, b))
        if incon is None and proc.state != (plumpy.ProcessState.KILLED if 'kill' in case['requests'] else plumpy.ProcessState.FINISHED):
            viol.append(V('own-state-run-differs', 'own-state-run-differs:%s' % text(proc.state), 'with a communicator attached the process with a state class of its own ended %s (%r); '
                          'announcing the transitions must not disturb the process (requests %s)' % (text(proc.state), proc.exception() if proc.state == plumpy.ProcessState.EXCEPTED else None, case['requests'])))
        elif incon is None and comm.announced != expected:
            missing = [e[1] for e in expected if e not in comm.announced]
            viol.append(V('announcements', 'announcements:own-state:%s' % ('missing' if missing else 'other'), 'a process with a state class of its own went through %s, '
                          'announced %s (missing %s; requests %s)' % (entered, [a[1] for a in comm.announced], missing, case['requests'])))
    except asyncio.TimeoutError:
        incon = 'watchdog'
    finally:
        asyncio.set_event_loop(None)
        loop.close()
    return {'viol': viol, 'obs': obs, 'inconclusive': incon, 'key': ['own-state', case['requests'], case['gap'], case.get('label')], 'nontrivial': obs['own_state_transitions'] >= 2,
            'sample': {'program': 'own-state', 'requests': case['requests']}}


class _Waiter(plumpy.Process):
    def run(self):
        return plumpy.Wait(self.done)

    def done(self, *args):
        return 5


def run_unreferenced(case):
    """A waiting process that nothing but its communicator (and its own stepping task) leads to -- what a launcher leaves behind when it
    is told not to wait: it is alive, so it is reachable, whatever the garbage collector does in the meantime."""
    import gc
    import weakref
    from pv.driver import Driver
    V = judges.V
    obs = {'unreferenced_processes': 1}
    viol = []
    with Driver(20000) as drv:
        loop = drv.loop
        base = comm.RmqShaped()
        communicator = communications.LoopCommunicator(base, loop) if case.get('wrap') else base
        ctl = pc.RemoteProcessThreadController(base)
        proc = _Waiter(loop=loop, communicator=communicator, pid=77)
        task = loop.create_task(proc.step_until_terminated())
        drv.pump()
        alive = weakref.ref(proc)
        state = proc.state.value
        del proc, task
        for _ in range(3):
            gc.collect()
            drv.pump()
        obs['collected_before_the_message'] = int(alive() is None)
        replies = []
        for send in (lambda: ctl.get_status(77), lambda: ctl.kill_process(77, 'bye')):
            try:
                fut = futures.unwrap_kiwi_future(send())
                drv.pump()
                replies.append(_reply_desc(fut))
            except BaseException as exc:  # noqa: BLE001
                replies.append(['raise', type(exc).__name__])
        if state != 'waiting':
            return {'viol': [], 'obs': obs, 'inconclusive': 'process not waiting', 'key': case, 'nontrivial': False}
        if not (replies[0][0] == 'result' and isinstance(replies[0][1], dict)) or replies[1] != ['result', True]:
            viol.append(V('live-unreachable', 'live-unreachable:unreferenced', 'a waiting process that only its communicator refers to answered the status / kill messages with %s '
                          '(the object was %s by then)' % (replies, 'collected' if alive() is None and obs['collected_before_the_message'] else 'alive')))
    return {'viol': viol, 'obs': obs, 'key': case, 'nontrivial': True, 'sample': {'kind': 'unreferenced', 'replies': _jsonable(replies)}}


def run_case(case):
    if case['kind'] == 'unreferenced':
        return run_unreferenced(case)
    if case['kind'] == 'own-state':
        return run_own_state(case)
    if case['kind'] == 'thread':
        return run_thread(case)
    if case['kind'] == 'idle':
        return run_idle(case)
    V = judges.V
    obs = {'handlers_ran': 0, 'twin_compared': 0, 'replies_compared': 0, 'announcements_checked': 0, 'intent': {}, 'via': {}, 'wrap': {},
           'broadcast_faults': 0, 'after_termination_checks': 0, 'in_step_deliveries': 0, 'idle_deliveries': 0, 'tolerated_kinds': {}}
    obs['wrap']['loop' if case['wrap'] else 'raw'] = 1
    viol = []
    try:
        a = CommRun(dict(case)).execute().record()
    except BaseException as exc:  # noqa: BLE001
        if case['kind'] == 'bfault':
            kind = (list(case['bfail'].values()) or [case.get('unsub_fault') or case.get('sub_fault')])[0]
            idx = (list(case['bfail']) or ['unsubscribe'])[0]
            viol.append(V('broadcast-fault-escaped', 'broadcast-fault-escaped:%s:%s' % (kind, 'first' if idx == '1' else 'later'),
                          'a tolerated broadcast failure (%s at announcement %s) disturbed the process: %r' % (kind, idx, exc)))
            return {'viol': viol, 'obs': obs, 'key': case, 'nontrivial': True}
        raise
    ex = a['extra']
    label = '%s:%s' % (case['name'], 'loop' if case['wrap'] else 'raw')
    # announcements: exactly once, in order, sent by the pid
    trans = [e[1:] for e in a['events'] if e[0] == 'state']
    if case.get('late_fault') and a['final'].get('state') == 'excepted' and trans and trans[-1][1] in ('finished', 'killed', 'excepted'):
        # (the recorder's own state hook went with the close that preceded the late fault: the transition the fault caused is known from
        # where the process ended)
        trans.append([trans[-1][1], 'excepted'])
    exp_subjects = ['state_changed.%s.%s' % (f, t) for f, t in trans]
    failing = {int(i) for i in (case.get('bfail') or {})}
    exp_ann = [[case.get('pid', 4242), s] for i, s in enumerate(exp_subjects, start=1) if i not in failing]
    got_ann = [x for x in ex['announced'] if str(x[1]).startswith('state_changed')]
    obs['announcements_checked'] = len(exp_subjects)
    if got_ann != exp_ann:
        viol.append(V('announcements', 'announcements:%s' % ('missing' if len(got_ann) < len(exp_ann) else ('extra' if len(got_ann) > len(exp_ann) else 'order')),
                      '%s: announced %s, transitions were %s' % (label, got_ann, exp_ann)))
    if ex.get('receiver_errors'):
        # a broadcast subscriber of the process (or the loop-communicator wrapper around it) raised into the communicator: no
        # broadcast -- its own announcements, which its filter passes over, included -- is answered with an exception
        viol.append(V('subscriber-raised', 'subscriber-raised:%s' % ex['receiver_errors'][0].split('(')[0], '%s: a broadcast subscriber raised: %s' % (label, ex['receiver_errors'][:2])))
    obs['subscriber_error_checks'] = 1
    obs['own_subscription_handles'] = int(bool(case.get('own_ids')))
    if a['final']['terminated'] and ex['after']:
        obs['after_termination_checks'] = 1
        if ex['after'].get('rpc') != 'unroutable':
            viol.append(V('terminated-still-routable', 'terminated-still-routable', '%s: rpc to a terminated process: %s' % (label, ex['after'])))
        if ex['after'].get('broadcast_handlers'):
            viol.append(V('terminated-still-subscribed', 'terminated-still-subscribed', '%s: a terminated process handled %d broadcast messages' % (
                label, ex['after']['broadcast_handlers'])))
        if 'clone_rpc' in ex['after']:
            obs['recreated_terminal_checks'] = 1
            if ex['after']['clone_rpc'] != 'unroutable' or ex['after'].get('clone_handlers'):
                viol.append(V('terminated-still-routable', 'terminated-still-routable:recreated', '%s: the process recreated from its terminal checkpoint '
                              '(with a communicator) still receives messages: %s' % (label, ex['after'])))
    if case['kind'] == 'bfault':
        obs['broadcast_faults'] = int(bool(case['bfail']))
        obs['unsubscribe_faults'] = int(bool(case.get('unsub_fault')))
        obs['tolerated_kinds'][(list(case['bfail'].values()) or [case.get('unsub_fault') or case.get('sub_fault')])[0]] = 1
        obs['subscription_faults'] = int(bool(case.get('sub_fault')))
        ref = plans.reference(case['program'])
        sa, sb = _summary(a), _summary(ref)
        if sa != sb:
            bad = sorted(k for k in sa if sa[k] != sb[k])
            viol.append(V('broadcast-fault-disturbed', 'broadcast-fault-disturbed:%s' % '+'.join(bad), '%s: with broadcast failure %s the run differs in %s' % (
                label, case['bfail'], bad)))
        return {'viol': viol, 'obs': obs, 'inconclusive': a['inconclusive'], 'key': case, 'nontrivial': True,
                'sample': {'program': case['name'], 'broadcast_failure': case['bfail'], 'wrap': case['wrap'], 'final': a['final']['state']}}
    # ---- twin run: direct calls at the handlers' logical positions --------------------------------
    calls = ex['handler_calls']
    obs['handlers_ran'] = len(calls)
    for act in a['acts']:
        if act['kind'] in ('rpc', 'bcast'):
            obs['via'][act['kind']] = obs['via'].get(act['kind'], 0) + 1
            obs['intent'][act['arg'][0]] = obs['intent'].get(act['arg'][0], 0) + 1
    for c in calls:
        if 'stepping' in c['phase']:
            obs['in_step_deliveries'] += 1
        else:
            obs['idle_deliveries'] += 1
    plan_b = []
    for c in calls:
        text = c['args'][1].get('msg_text')
        act = ['play'] if c['name'] == 'play' else [c['name'], text]
        plan_b.append({'at': ['events', c['pos']], 'act': act})
    b = lifecycle.run_case({'program': case['program'], 'plan': plan_b, 'drain': True, 'listener': False, 'recreate_cancelled': bool(case.get('recreate_cancelled')),
                            'late_fault': bool(case.get('late_fault'))})
    obs['late_hook_faults'] = int(bool(case.get('late_fault')))
    obs['twin_compared'] = 1
    direct = [x for x in b['acts'] if x['via'].startswith('events')]
    sa, sb = _summary(a), _summary(b)
    msgs = [[x['kind']] + x['arg'] for x in a['acts'] if x['kind'] in ('rpc', 'bcast')]
    if sa != sb:
        bad = sorted(k for k in sa if sa[k] != sb[k])
        viol.append(V('twin-differs', 'twin-differs:%s:%s' % ('+'.join(bad), '>'.join('%s-%s' % (m[0], m[1]) for m in msgs)),
                      '%s: remotely controlled run differs from the directly controlled twin in %s: %s vs %s (messages %s, handlers %s)' % (
                          label, bad, {k: sa[k] for k in bad}, {k: sb[k] for k in bad}, msgs, [[c['name'], c['pos'], c['phase']] for c in calls])))
    # handler return values equal the direct call's
    for c, d in zip(calls, direct):
        hv = c['ret'] if c['ret'][0] != 'future' else ['future', c.get('fut_desc')]
        dv = d['ret'] if d['ret'][0] != 'future' else ['future', dict((n, f) for n, f in b['futs']).get(d['n'])]
        if hv != dv:
            viol.append(V('handler-return', 'handler-return:%s' % c['name'], '%s: handler %s returned %s, the direct call %s' % (label, c['name'], hv, dv)))
    # a live process can be reached (a direct call always can)
    obs['recreated_with_cancelled_future'] = int(bool(case.get('recreate_cancelled')))
    obs['falsy_process_ids'] = int(case.get('pid') == 0)
    for x in a['acts']:
        if x['kind'] == 'rpc' and x['live_before'] and x['ret'][0] == 'raise':
            viol.append(V('live-unroutable', 'live-unroutable:%s' % x['arg'][0], '%s: the rpc %s message to the live process (%s) could not be delivered: %s' % (
                label, x['arg'][0], x['state_before'], x['ret'][1])))
            break
    # every control message that was routed to the live process reaches its handler (a direct call always runs)
    routed = [x for x in a['acts'] if x['kind'] in ('rpc', 'bcast') and x['arg'][0] != 'status' and x['ret'][0] != 'raise' and x['live_before']]
    if len(calls) != len(routed) and not a['inconclusive']:
        viol.append(V('handler-skipped', 'handler-skipped:%s' % '>'.join('%s-%s' % (m[0], m[1]) for m in msgs),
                      '%s: %d control messages were routed to the process but %d handlers ran (messages %s, replies %s)' % (
                          label, len(routed), len(calls), msgs, ex['replies'])))
    elif len(calls) == len(routed):
        # ... with the text that was sent ('' is a text, None is none): the direct call the message stands for is the one with that text
        for c, x in zip(calls, routed):
            if c['name'] != x['arg'][0] or c['name'] == 'play':
                continue
            got = c['args'][1].get('msg_text', c['args'][0][0] if c['args'][0] else None)
            obs['texts_compared'] = obs.get('texts_compared', 0) + 1
            if x['arg'][1] == '':
                obs['empty_texts_compared'] = obs.get('empty_texts_compared', 0) + 1
            if got != x['arg'][1]:
                viol.append(V('handler-text', 'handler-text:%s-%s' % (x['kind'], c['name']), '%s: the %s %s message was sent with the text %r, %s() was called with %r' % (
                    label, x['kind'], c['name'], x['arg'][1], c['name'], got)))
                break
    # replies: what the sender gets equals the (awaited) value of the handler / direct call
    rpc_calls = [c for c in calls]  # handlers run in message order; broadcast handlers interleave in the same order
    hi = 0
    replies = {n: (intent, desc) for n, intent, desc in ex['replies']}
    status_i = 0
    for act in a['acts']:
        if act['kind'] not in ('rpc', 'bcast'):
            continue
        intent = act['arg'][0]
        if act['ret'][0] == 'raise':
            continue  # unroutable (the process had already terminated when the message was sent)
        if intent == 'status':
            if act['kind'] == 'rpc':
                desc = replies.get(act['n'], (None, None))[1]
                obs['replies_compared'] += 1
                if status_i < len(ex['status_calls']):
                    want = ['result', _jsonable(ex['status_calls'][status_i][1])]
                    status_i += 1
                    if desc != want:
                        viol.append(V('status-reply', 'status-reply', '%s: status reply %s, get_status_info gave %s' % (label, desc, want)))
                elif not (desc and desc[0] == 'exception') or act['live_before']:
                    # (a request that reached a live process is answered with its status: the direct call get_status_info() works)
                    viol.append(V('status-reply', 'status-reply:unhandled', '%s: status reply %s but no status was produced' % (label, desc)))
            continue
        if act['ret'][0] == 'raise':
            continue  # unroutable (process already terminated when the message was sent)
        if hi >= len(rpc_calls):
            # no handler ran for this message (e.g. terminated before delivery): the reply must not claim success silently
            continue
        c = rpc_calls[hi]
        hi += 1
        if act['kind'] == 'rpc' and act.get('reply_dropped'):
            obs['dropped_replies'] = obs.get('dropped_replies', 0) + 1
        elif act['kind'] == 'rpc':
            desc = replies.get(act['n'], (None, None))[1]
            obs['replies_compared'] += 1
            if c['ret'][0] == 'value':
                want = ['result', c['ret'][1]]
            elif c['ret'][0] == 'future':
                want = c.get('fut_desc')
                want = ['result', want[1]] if want and want[0] == 'result' else want
            else:
                want = ['exception', c['ret'][1][0]]
            if want is not None and desc is not None and desc[0] == 'exception' and want[0] == 'exception':
                continue
            if desc != want:
                viol.append(V('reply-differs', 'reply-differs:%s' % intent, '%s: reply to %s is %s, the handler produced %s' % (label, intent, desc, want)))
    res = {'viol': judges._dedupe(viol), 'obs': obs, 'inconclusive': a['inconclusive'] or b['inconclusive'], 'key': case,
           'nontrivial': any(c['live'] for c in calls)}
    res['sample'] = {'program': case['name'], 'wrap': case['wrap'], 'messages': msgs, 'handlers': [[c['name'], c['pos'], c['phase'], c['ret']] for c in calls],
                     'replies': ex['replies'], 'announced': got_ann, 'final': a['final']['state']}
    return res


def run_thread(case):
    """Messages delivered from a communicator thread while the loop runs; judged by the lifecycle monitors."""
    import asyncio
    import time
    from pv.driver import Driver
    V = judges.V
    obs = {'thread_runs': 1}
    run = CommRun({'program': case['program'], 'plan': [], 'wrap': case['wrap'], 'drain': True, 'listener': False})
    run._load_plan()
    run.extra_tasks = []
    viol = []
    with Driver(100000) as drv:
        run.drv = drv
        cls = run._make_class()
        programs.CURRENT_REC = run.rec
        try:
            run.proc = proc = run._construct(cls, drv.loop)
        finally:
            programs.CURRENT_REC = None
        proc.add_cleanup(lambda: run.rec.ev('cleanup'))
        proc.add_cleanup(run._release_one)
        proc.add_cleanup(run._release_one)
        run.sample(0)
        run.task = drv.loop.create_task(proc.step_until_terminated())
        drv.on_slot = lambda slot: run.sample(slot)
        sent = []

        def sender():
            for m in case['msgs']:
                if case['delay']:
                    time.sleep(case['delay'] / 1000.0)
                try:
                    if m[0] == 'rpc':
                        fut = {'pause': lambda: run.ctl.pause_process(proc.pid, m[2]), 'play': lambda: run.ctl.play_process(proc.pid),
                               'kill': lambda: run.ctl.kill_process(proc.pid, m[2]), 'status': lambda: run.ctl.get_status(proc.pid)}[m[1]]()
                        sent.append([m, futures.unwrap_kiwi_future(fut)])
                    else:
                        {'pause': lambda: run.ctl.pause_all(m[2]), 'play': run.ctl.play_all, 'kill': lambda: run.ctl.kill_all(m[2])}[m[1]]()
                        sent.append([m, None])
                except kiwipy.UnroutableError:
                    sent.append([m, 'unroutable'])
                except Exception as exc:  # noqa: BLE001
                    sent.append([m, 'error:%r' % (exc,)])

        th = threading.Thread(target=sender)
        th.start()
        deadline = time.time() + 20
        watchdog = False
        while True:
            drv.loop.call_soon(drv.loop.stop)
            drv.loop.run_forever()
            if not th.is_alive() and drv.quiescent():
                if proc.has_terminated():
                    break
                if proc.paused:
                    proc.play()
                elif proc.state.value == 'waiting':
                    try:
                        proc.resume('auto')
                    except Exception:  # noqa: BLE001
                        pass
                else:
                    break
            if time.time() > deadline:
                watchdog = True
                break
            if th.is_alive():
                time.sleep(0.0002)
        th.join(5)
        drv.on_slot = None
        run.final = lifecycle.views(proc)
        run.final_phase = lifecycle.phase_of(proc)
        run.task_info = run._task_info(run.task)
        run.extra_task_info = []
        run.fut_info = []
        run.loop_errors = []
        run.slots = drv.slot
        run.trace = list(proc.trace)
        run.extra = {}
        rec = run.record()
    if watchdog:
        return {'viol': [], 'obs': obs, 'inconclusive': 'thread-watchdog', 'key': case, 'nontrivial': False}
    rec['case']['listener'] = False
    for v in judges.judge_c01(rec):
        viol.append(V('thread-' + v['kind'], 'thread-' + v['sig'], v['msg']))
    if rec['final']['terminated']:
        for v in judges.judge_c02(rec):
            if v['kind'] in ('kill-text',):
                continue
            viol.append(V('thread-' + v['kind'], 'thread-' + v['sig'].split(':acts=')[0], v['msg']))
    else:
        viol.append(V('thread-not-terminated', 'thread-not-terminated:%s' % rec['final']['state'], 'process %s at the end of a thread-mode run, messages %s' % (rec['final']['state'], case['msgs'])))
    for m, fut in sent:
        if fut is not None and not isinstance(fut, str) and not fut.done():
            viol.append(V('thread-reply-pending', 'thread-reply-pending:%s' % m[1], 'reply to %s still pending at the end' % (m,)))
    return {'viol': judges._dedupe(viol), 'obs': obs, 'key': case, 'nontrivial': True,
            'sample': {'program': case['name'], 'thread_messages': case['msgs'], 'final': rec['final']['state']}}
