"""C18 -- Process.current() is the process whose code is running."""
import asyncio
import json
import os
import subprocess
import sys

import plumpy
from plumpy import process_states as ps

from pv import curprog, judges, plans
from pv.driver import BudgetExceeded, Driver

ID = 'C18'
TITLE = 'Process.current()'
ANCHORS = ['plumpy.processes:Process._process_scope', 'plumpy.processes:Process._run_task', 'plumpy.processes:Process.call_soon', 'plumpy.processes:Process.current']
LEVEL = 'exploration'
TECHNIQUE = ('runtime monitoring: assertion Process.current() is self sampled inside generated step functions (entry, after every await, exit), '
             'every hook override and every scheduled callback, and Process.current() is None sampled between loop callbacks, for concurrently '
             'stepping processes, launched children and re-entrant nested execution (worker subprocesses)')
RULE = ('sets of 1-4 concurrently stepping processes with async steps (interleaved yields), children launched from steps, callbacks scheduled on '
        'self and on the parent, control requests (pause/play/kill) issued from outside at loop-callback slots, and -- in separate interpreter '
        'processes using plumpy\'s re-entrant loop policy -- processes executed from inside another process\'s step, nested to depth 3; distinct by '
        '(scripts, plan); non-trivial when >= 2 processes sampled or a nested/child execution occurred; listener samples are recorded, not judged')
RULE += ('; also: coroutine and callable-object callbacks outliving their step, callbacks scheduled by ordinary code and by children, bound methods of another process as callbacks, cleanups of a process closed without being run')
ASSUMPTIONS = ['samples in ProcessListener callbacks are not part of the statement (recorded only)',
               'nested execution relies on nest_asyncio as configured by plumpy.set_event_loop_policy()']
REQUIRED = ['samples/step', 'samples/hook', 'samples/callback', 'samples/outside', 'concurrent_runs', 'nested_runs', 'children', 'where/after-await',
            'where/after-launch', 'where/after-nested', 'where/after-inline', 'outside_runner', 'parent_controlled_by_child', 'cleanup_callbacks', 'bound_method_callbacks', 'where/after-collect', 'own_waiting_state_samples', 'falsy_processes', 'where/after-collect-own', 'equal_process_pairs', 'absorbed_timeouts', 'children_with_the_id_of_their_parent', 'nested_runs_from_a_hook']
BOUNDS = {'quick': '150 random concurrent sets + 24 nested scenarios', 'thorough': '1500 random concurrent sets + 200 nested scenarios'}
TIMEOUT = {'quick': 900, 'thorough': 3600}


def _rand_script(rng, depth, allow_nested, name_hint=''):
    segs = []
    for _s in range(rng.randint(1, 3)):
        ops = []
        for _o in range(rng.randint(1, 4)):
            r = rng.random()
            if r < 0.35:
                ops.append(['yield'])
            elif r < 0.43:
                ops.append(['soon', 'c%d' % rng.randint(0, 9)])
            elif r < 0.5:
                ops.append(['asoon', 'a%d' % rng.randint(0, 9), rng.randint(1, 4)] + (['obj'] if rng.random() < 0.4 else []))
            elif r < 0.6:
                ops.append(['sample', 's%d' % rng.randint(0, 9)])
            elif r < 0.7:
                ops.append(['out', 'o%d' % rng.randint(0, 3), rng.randint(0, 9)])
            elif r < 0.77:
                ops.append(['parent_soon', 'p' * rng.randint(1, 4)])
            elif r < 0.79:
                ops.append(['close_fresh'])
            elif r < 0.8 and not allow_nested:
                ops.append(['orphan'] if rng.random() < 0.5 else ['leak_cb'])
            elif r < 0.92 and depth > 0:
                if allow_nested and rng.random() < 0.7:
                    ops.append(['nested', _rand_script(rng, depth - 1, allow_nested)])
                elif rng.random() < 0.4:
                    sub = _rand_script(rng, depth - 1, allow_nested)
                    if rng.random() < 0.6 and not allow_nested:
                        sub['segments'][0].append(['wait'])  # the inline child waits: the harness pauses / plays / kills / resumes it
                        sub['segments'].append([['sample', 'post-wait']])
                    ops.append(['inline', sub])
                else:
                    ops.append(['launch', _rand_script(rng, depth - 1, allow_nested)])
            else:
                ops.append(['yield'])
        segs.append(ops)
    if any(op[0] == 'launch' for seg in segs for op in seg):
        segs[-1].append(['await_children'])
    return {'segments': segs, 'sync': rng.random() < 0.3, 'hook_nested': bool(allow_nested and depth == 3 and rng.random() < 0.4), 'falsy': rng.random() < 0.25, 'all_equal': rng.random() < 0.5, 'same_pid': rng.random() < 0.3}


def gen_cases(tier, seed):
    rng = plans.rng_for(seed, 'c18')
    cases = []
    n = 150 if tier == 'quick' else 1500
    for i in range(n):
        k = rng.randint(1, 4)
        scripts = [_rand_script(rng, 2, False) for _ in range(k)]
        plan = []
        for _a in range(rng.randint(0, 3)):
            plan.append({'at': rng.randint(0, 25), 'proc': rng.randint(0, 7), 'act': rng.choice(['pause', 'play', 'kill', 'pause', 'soon_fn', 'soon_coro', 'soon_obj', 'soon_bound', 'close_fresh', 'fail', 'soon_raise'])})
        cases.append({'kind': 'concurrent', 'scripts': scripts, 'plan': sorted(plan, key=lambda e: e['at']), 'wait': rng.random() < 0.3,
                      'inline_top': [rng.random() < 0.4 for _ in range(k)]})
    # an interruption (pause / kill) reaching a process that waits while being stepped inline -- by a parent step or by ordinary code
    waiter = {'segments': [[['sample', 'a'], ['wait']], [['sample', 'post-wait'], ['yield']]], 'sync': False}
    for qplan in ([['kill']], [['pause'], ['play']], [['pause'], ['kill']], [['pause'], ['play'], ['kill']], []):
        for parent_kind in ('inline', 'top-inline', 'launch'):
            if parent_kind == 'top-inline':
                scripts, inline_top = [waiter, {'segments': [[['yield'], ['sample', 'x']]]}], [True, False]
            else:
                scripts = [{'segments': [[['yield'], [parent_kind, waiter], ['sample', 'after'], ['yield']], [['sample', 'next'], ['await_children']]]},
                           {'segments': [[['yield'], ['yield'], ['sample', 'x']]]}]
                inline_top = [False, True]
            cases.append({'kind': 'concurrent', 'scripts': scripts, 'plan': [], 'qplan': [[-1 if parent_kind != 'top-inline' else 0, a[0]] for a in qplan],
                          'inline_top': inline_top, 'wait': False})
    # ordinary code steps a process inline under a timeout that fires while a step is suspended (or the process waits), absorbs the
    # timeout and steps on
    waiter2 = {'segments': [[['sample', 'a'], ['yield'], ['yield'], ['sample', 'b'], ['wait']], [['sample', 'post-wait'], ['yield'], ['yield'], ['sample', 'c']]], 'sync': False}
    for at in range(0, 10):
        cases.append({'kind': 'concurrent', 'scripts': [waiter2, {'segments': [[['yield'], ['sample', 'x'], ['yield']]]}], 'plan': [{'at': at, 'proc': 0, 'act': 'timeout_runner'}],
                      'inline_top': [True, at % 2 == 0], 'wait': False})
    # a process that is in the middle of a step (suspended in an await, or waiting) is failed from ordinary code / by a raising callback
    stepper_ = {'segments': [[['sample', 'a'], ['yield'], ['yield'], ['yield'], ['sample', 'b']], [['sample', 'c'], ['wait']], [['sample', 'd']]], 'sync': False}
    for at in range(0, 9):
        for act in ('fail', 'soon_raise'):
            cases.append({'kind': 'concurrent', 'scripts': [stepper_, {'segments': [[['yield'], ['sample', 'x'], ['yield'], ['yield']]]}], 'plan': [{'at': at, 'proc': 0, 'act': act}],
                          'inline_top': [at % 2 == 1, False], 'wait': False})
    # a child controls (pauses / plays / kills) its parent from inside its own step while the parent is not stepping
    for ctl in (['kill'], ['pause', 'play'], ['pause', 'kill'], ['pause'], ['play']):
        for parent_prep in ([], [['pause']], [['pause'], ['play']]):
            child = {'segments': [[['sample', 'c0'], ['wait']], [[('parent_ctl' if True else ''), c] for c in ctl] + [['yield'], ['sample', 'c1']]]}
            parent = {'segments': [[['launch', child], ['sample', 'launched'], ['wait']], [['sample', 'resumed'], ['await_children']]]}
            # quiescent plan: prepare the parent (index 0), then wake the child (index 1) which acts on the parent
            qplan = [[0, a[0]] for a in parent_prep] + [[1, 'resume']]
            cases.append({'kind': 'concurrent', 'scripts': [parent], 'plan': [], 'qplan': qplan, 'inline_top': [False], 'wait': False})
    m = 24 if tier == 'quick' else 200
    for i in range(m):
        k = rng.randint(1, 2)
        cases.append({'kind': 'nested', 'scripts': [_rand_script(rng, 3, True) for _ in range(k)]})
    return cases


# -------------------------------------------------------------------------------------------
def _judge(log, outside):
    V = judges.V
    viol = []
    for name, kind, where, ok, cur in log:
        if kind in ('step', 'callback', 'hook') and not ok:
            w = where.split(':')[-1] if kind == 'step' else where
            if kind == 'callback':
                w = 'from-child' if where.startswith('from-child') else ('cleanup' if where == 'cleanup' else ('bound-method' if 'bound-method' in where else 'own'))
            who = 'none' if cur is None else ('child' if cur.startswith(name + '.') else ('parent' if name.startswith(cur + '.') else 'other'))
            viol.append(V('not-current', 'not-current:%s:%s:current=%s' % (kind, w, who),
                          'inside %s %s of process %s Process.current() is %s' % (kind, where, name, cur)))
    for slot, cur in outside:
        if cur is not None:
            viol.append(V('leaked', 'leaked-outside', 'between loop callbacks (slot %s) Process.current() is %s, expected None' % (slot, cur)))
    return judges._dedupe(viol)


def _obs(log, outside):
    obs = {'samples': {'outside': len(outside)}, 'where': {}, 'children': 0, 'listener_not_current': 0}
    names = set()
    for name, kind, where, ok, cur in log:
        obs['samples'][kind] = obs['samples'].get(kind, 0) + 1
        names.add(name)
        if kind == 'step':
            w = where.split(':')[-1]
            obs['where'][w] = obs['where'].get(w, 0) + 1
        if kind == 'listener' and not ok:
            obs['listener_not_current'] += 1
    # processes that compare equal to their parent (one nested / stepped inline / launched inside a step of the other)
    obs['equal_process_pairs'] = sum(1 for n in names if '.' in n and n in curprog.PROCS and n.rsplit('.', 1)[0] in curprog.PROCS
                                     and curprog.PROCS[n] == curprog.PROCS[n.rsplit('.', 1)[0]])
    obs['children_with_the_id_of_their_parent'] = sum(1 for n in names if '.' in n and n in curprog.PROCS and n.rsplit('.', 1)[0] in curprog.PROCS
                                                      and curprog.PROCS[n].pid == curprog.PROCS[n.rsplit('.', 1)[0]].pid)
    obs['nested_runs_from_a_hook'] = sum(1 for _n, kind, where, _ok, _c in log if kind == 'hook' and where == 'on_running:after-nested-run')
    obs['cleanup_callbacks'] = sum(1 for _n, kind, where, _ok, _c in log if kind == 'callback' and where == 'cleanup')
    obs['bound_method_callbacks'] = sum(1 for _n, kind, where, _ok, _c in log if kind == 'callback' and 'bound-method-of-' in where and not where.endswith('self'))
    obs['outside_runner'] = sum(1 for w, _c in outside if w == 'runner-after')
    obs['absorbed_timeouts'] = sum(1 for w, _c in outside if w == 'runner-after-timeout')
    obs['parent_controlled_by_child'] = sum(1 for _n, kind, where, _ok, _c in log if kind == 'step' and 'after-parent-' in where)
    obs['own_waiting_state_samples'] = sum(1 for _n, kind, where, _ok, _c in log if kind == 'step' and where.startswith('waiting-state:'))
    obs['falsy_processes'] = sum(1 for n in names if n in curprog.PROCS and len(curprog.PROCS[n]) == 0)
    obs['children'] = sum(1 for n in names if '.' in n)
    obs['processes'] = len(names)
    return obs, names


def run_concurrent(case):
    del curprog.LOG[:]
    curprog.PROCS.clear()
    outside = []
    incon = None
    with Driver(6000) as drv:
        procs = []
        for i, script in enumerate(case['scripts']):
            if case.get('wait') and i == 0:
                script = dict(script, segments=[script['segments'][0] + [['wait']]] + script['segments'][1:] + [[['sample', 'post-wait']]])
            p = curprog.CurProc(inputs={'name': 'P%d' % i, 'script': script}, loop=drv.loop)
            p.add_process_listener(curprog.CurListener())
            procs.append(p)
        cur = plumpy.Process.current()
        outside.append((0, None if cur is None else cur.raw_inputs['name']))
        async def runner(p):
            # ordinary (non-process) code driving a process inline in its own task: sees None before and after
            cur = plumpy.Process.current()
            outside.append(('runner-before', None if cur is None else cur.raw_inputs['name']))
            while True:
                try:
                    await p.step_until_terminated()
                    break
                except asyncio.CancelledError:
                    # a timeout around the inline stepping fired (the plan cancelled this task) and was absorbed, as ``asyncio.timeout``
                    # does: this is ordinary code again, in the same task -- and it goes on stepping the process afterwards
                    asyncio.current_task().uncancel()
                    cur = plumpy.Process.current()
                    outside.append(('runner-after-timeout', None if cur is None else cur.raw_inputs['name']))
                    if p.has_terminated():
                        break
            cur = plumpy.Process.current()
            outside.append(('runner-after', None if cur is None else cur.raw_inputs['name']))

        inline_top = case.get('inline_top') or [False] * len(procs)
        tasks = [drv.loop.create_task(runner(p) if inl else p.step_until_terminated()) for p, inl in zip(procs, inline_top)]
        plan = list(case['plan'])

        def hook(slot):
            cur = plumpy.Process.current()
            outside.append((slot, None if cur is None else cur.raw_inputs['name']))
            while plan and plan[0]['at'] <= slot:
                e = plan.pop(0)
                everyone = list(curprog.PROCS.values())
                p = everyone[e['proc'] % len(everyone)]
                try:
                    if e['act'] == 'timeout_runner':
                        # the ordinary code that steps a top-level process inline gives up on this attempt (its timeout fires)
                        idx = e['proc'] % len(tasks)
                        if inline_top[idx] and not tasks[idx].done():
                            tasks[idx].cancel()
                    elif e['act'] == 'close_fresh':
                        curprog.close_fresh('outside.fresh%d' % slot, drv.loop)
                    elif e['act'] == 'soon_bound':
                        # the callback is a bound method of ANOTHER process
                        other = everyone[(e['proc'] + 1) % len(everyone)]
                        if not p.has_terminated():
                            p.call_soon(other.bound_probe, p.raw_inputs['name'], 'outside-bound-method-of-%s' % ('other' if other is not p else 'self'))
                    elif e['act'] == 'fail':
                        # the process is failed from ordinary code (e.g. while one of its steps is suspended in an await, or it waits):
                        # the hooks of that transition are its code all the same
                        if not p.has_terminated():
                            p.fail(RuntimeError('failed from outside'), None)
                    elif e['act'] == 'soon_raise':
                        # ... or by a callback it was handed that raises
                        if not p.has_terminated():
                            def boom(_p=p):
                                curprog.sample(_p, 'callback', 'outside-raising')
                                raise RuntimeError('callback fails')
                            p.call_soon(boom)
                    elif e['act'] in ('soon_fn', 'soon_coro', 'soon_obj'):
                        # ordinary code (no process is current here) hands the process a callback: a function, a coroutine function or
                        # an object with an async __call__
                        if not p.has_terminated():
                            p.call_soon({'soon_fn': lambda: curprog._cb(p, 'outside-fn'), 'soon_coro': lambda: curprog._acb(p, 'outside-coro', 2),
                                         'soon_obj': lambda: curprog._AsyncCallable(p, 'outside-obj', 2)}[e['act']]())
                    else:
                        getattr(p, e['act'])(*([] if e['act'] == 'play' else ['m']))
                except Exception:  # noqa: BLE001
                    pass
                cur = plumpy.Process.current()
                outside.append(('after-%s' % e['act'], None if cur is None else cur.raw_inputs['name']))

        drv.on_slot = hook
        qplan = list(case.get('qplan') or [])
        try:
            for _round in range(60):
                drv.pump()
                allp = list(curprog.PROCS.values())
                live = [p for p in allp if not p.has_terminated()]
                if not live:
                    break
                acted = False
                if qplan:
                    idx, act = qplan.pop(0)
                    target = allp[idx]
                    try:
                        getattr(target, act)(*([] if act in ('play', 'resume') else ['m']))
                    except Exception:  # noqa: BLE001
                        pass
                    cur = plumpy.Process.current()
                    outside.append(('after-%s' % act, None if cur is None else cur.raw_inputs['name']))
                    continue
                for p in live:
                    if p.paused:
                        p.play()
                        acted = True
                    elif p.state == ps.ProcessState.WAITING:
                        try:
                            p.resume()
                            acted = True
                        except Exception:  # noqa: BLE001
                            pass
                if not acted:
                    incon = 'stuck'
                    break
        except BudgetExceeded:
            incon = 'budget'
        drv.on_slot = None
    return list(curprog.LOG), outside, incon


NESTED_MAIN = r'''
import json, sys
import pv
import plumpy
from pv import curprog
plumpy.set_event_loop_policy()
import asyncio
cases = json.load(sys.stdin)
out = []
for case in cases:
    del curprog.LOG[:]
    curprog.PROCS.clear()
    outside = []
    err = None
    try:
        loop = asyncio.get_event_loop()
        for i, script in enumerate(case['scripts']):
            p = curprog.CurProc(inputs={'name': 'N%d' % i, 'script': script}, loop=loop)
            p.add_process_listener(curprog.CurListener())
            cur = plumpy.Process.current()
            outside.append(['before-execute', None if cur is None else cur.raw_inputs['name']])
            p.execute()
            cur = plumpy.Process.current()
            outside.append(['after-execute', None if cur is None else cur.raw_inputs['name']])
        # let stray callbacks run
        loop.run_until_complete(asyncio.sleep(0))
    except BaseException as exc:
        err = repr(exc)
    out.append({'log': list(curprog.LOG), 'outside': outside, 'error': err})
json.dump(out, sys.stdout)
'''


def run_nested(case):
    env = dict(os.environ)
    try:
        proc = subprocess.run([sys.executable, '-c', NESTED_MAIN], input=json.dumps([case]), capture_output=True, text=True, timeout=60, env=env)
    except subprocess.TimeoutExpired:
        return None, None, 'nested-worker-timeout'
    if proc.returncode != 0:
        return None, None, 'nested-worker-failed:%s' % proc.stderr[-400:]
    data = json.loads(proc.stdout)[0]
    incon = None
    if data['error']:
        incon = 'nested-error:%s' % data['error'][:200]
    return data['log'], data['outside'], incon


def run_case(case):
    if case['kind'] == 'concurrent':
        log, outside, incon = run_concurrent(case)
    else:
        log, outside, incon = run_nested(case)
    if log is None:
        return {'viol': [], 'obs': {}, 'inconclusive': incon, 'key': case, 'nontrivial': False}
    viol = _judge(log, outside)
    obs, names = _obs(log, outside)
    obs['concurrent_runs' if case['kind'] == 'concurrent' else 'nested_runs'] = 1
    res = {'viol': viol, 'obs': obs, 'inconclusive': incon, 'key': case, 'nontrivial': len(names) >= 2}
    res['sample'] = {'kind': case['kind'], 'scripts': case['scripts'], 'plan': case.get('plan'), 'processes': sorted(names),
                     'first_samples': log[:12]}
    return res
