"""C11 -- only spec-conforming inputs create a process; defaults applied, inputs immutable."""
import collections
import collections.abc
import itertools
import copy
import json

import plumpy
from plumpy.ports import InputPort, PortNamespace

from pv import generated, judges, plans

ID = 'C11'
TITLE = 'input validation, defaults, immutability'
ANCHORS = ['plumpy.ports:PortNamespace.pre_process', 'plumpy.ports:Port.validate', 'plumpy.ports:PortNamespace.validate', 'plumpy.ports:PortNamespace.validate_ports', 'plumpy.ports:PortNamespace.validate_dynamic_ports', 'plumpy.processes:Process.on_create', 'plumpy.ports:InputPort.required_override']
LEVEL = 'exploration'
TECHNIQUE = ('runtime monitoring against a reference model + metamorphic relations: real Process construction on generated (input spec, nested input '
             'dictionary) pairs compared with an independent acceptance/default model; immutability and caller-dictionary probes on every accepted case')
RULE = ('input specs: port trees to depth 3 (quick 2) with every attribute combination of required / valid_type / default (plain, callable) / '
        'validator for ports and required / dynamic / valid_type / populate_defaults / validator / default for namespaces, names {a, ab, n, m, x}; '
        'inputs: per declared name one of absent / conforming / wrong type / None / {} / nested dict, plus undeclared keys at every level, values '
        'over {1, "s", None, {}, nested dicts, instances of a class hierarchy}; quick: 250 specs x 40 inputs, thorough: 4000 specs x 60; '
        'distinct by (spec, inputs); non-trivial when the spec has >=2 ports')
RULE += ('; also: namespaces given as OrderedDict / UserDict / read-only mappings, falsy non-mapping namespace values, port attributes set after declaration, one-argument validators, validators objecting to the empty mapping, the same spec reached through expose_inputs()')
ASSUMPTIONS = ['attribute assignment on AttributesFrozendict does not change the mapping and is not judged',
               'specs whose non-callable default violates the port itself are rejected at definition time and skipped',
               'reference model written from the statement and documentation']
REQUIRED = ['failing_factory_defaults', 'specs_built_at_the_second_attempt', 'namespaces_declared_after_a_port_of_theirs', 'declared_by_dotted_paths', 'aliased_namespace_values', 'own_created_state_class', 'factory_defaults_compared', 'constructed', 'accepted', 'rejected', 'defaults_populated', 'callable_defaults', 'populate_defaults_false', 'dynamic_values', 'immutability_probes',
            'caller_dict_checks', 'metamorphic/idempotent', 'metamorphic/remove_required', 'metamorphic/wrong_type', 'nested_ns_levels', 'exposed_specs', 'legacy_validators', 'aliased_namespace_values', 'mapping_leaf_values']
BOUNDS = {'quick': '250 specs (depth<=2) x 40 inputs', 'thorough': '4000 specs (depth<=3) x 60 inputs'}
UN = '<absent>'


class A:
    def __eq__(self, other):
        return type(other) is type(self)

    def __hash__(self):
        return 1

    def __repr__(self):
        return type(self).__name__ + '()'


class B(A):
    pass


class C(A):
    """An array-like value: it has no truth value of its own (asking for one is an error), it is an A all the same."""

    def __bool__(self):
        raise ValueError('the truth value of an array is ambiguous')


generated.register(A, 'A')
generated.register(B, 'B')
TYPES = {'int': int, 'str': str, 'A': A, 'B': B, 'intstr': (int, str), 'dict': dict, 'OD': collections.OrderedDict,
         'intdict': (int, dict)}  # (for the values of a dynamic namespace: mappings are gone into, their leaves are what has the type)


def v_not1(value, port):
    return 'is one' if value == 1 and not isinstance(value, bool) else None


def nsv_no_x(values, port):
    return 'has x' if 'x' in values else None


def d7():
    return 7


def d_s():
    return 's'


class Serial:
    """What a factory default makes: every call gives a new one (equal to any other for the model, told apart by its number)."""
    made = itertools.count()

    def __init__(self):
        self.n = next(Serial.made)

    def __eq__(self, other):
        return type(other) is type(self)

    def __hash__(self):
        return 2

    def __repr__(self):
        return 'Serial()'


generated.register(Serial, 'Serial')


def v_short(value, port):
    """A list value may hold at most one element (a validator on a mutable value: what it accepted may change later)."""
    return 'too long' if isinstance(value, list) and len(value) > 1 else None


def v_not1_old(value):
    """The same rule through the older one-argument validator signature (deprecated, still supported)."""
    return v_not1(value, None)


def v_not1_raises(value, port):
    """The same rule, refusing by raising -- without a message (a bare ``assert`` / ``raise ValueError()``): refused all the same."""
    if v_not1(value, port) is not None:
        raise ValueError()


def v_not1_empty(value, port):
    """The same rule with an empty message (what ``str(AssertionError())`` gives): refused is refused, whatever the text."""
    return '' if v_not1(value, port) is not None else None


def nsv_no_x_old(values):
    return nsv_no_x(values, None)


def nsv_some(values, port):
    """A namespace that must hold something: objects to the empty mapping."""
    return 'nothing given' if not values else None


def nsv_some_raises(values, port):
    """The same rule, refusing by raising."""
    if not values:
        raise ValueError('nothing given')


VALIDATORS = {'nsv_some_raises': nsv_some_raises, 'nsv_some': nsv_some, 'v_not1': v_not1, 'nsv_no_x': nsv_no_x, 'v_short': v_short, 'v_not1_old': v_not1_old, 'nsv_no_x_old': nsv_no_x_old, 'v_not1_raises': v_not1_raises, 'v_not1_empty': v_not1_empty}
MODEL_VALIDATORS = {'nsv_some_raises': nsv_some, 'nsv_some': nsv_some, 'v_not1': v_not1, 'nsv_no_x': nsv_no_x, 'v_short': v_short, 'v_not1_old': v_not1, 'nsv_no_x_old': nsv_no_x, 'v_not1_raises': v_not1, 'v_not1_empty': v_not1}
def ns_empty():
    return {}


def ns_partial():
    return {'n': 5}


def d_boom():
    """A factory that cannot produce its value right now (the resource it reads is not there): no value, no process."""
    raise LookupError('the default cannot be worked out')


CALLABLES = {'d_boom': d_boom, 'ns_empty': ns_empty, 'ns_partial': ns_partial, 'd7': d7, 'd_s': d_s, 'cls_A': A, 'cls_list': list, 'serial': Serial}  # (a class is a callable default like any other: evaluated per construction)
NAMES = ['a', 'ab', 'n', 'm', 'x']


# ---------------------------------------------------------------------------------------
# generators (descriptions are JSON-able; real objects are built from them)
# ---------------------------------------------------------------------------------------
def _good_value(rng, vt):
    if vt == 'int':
        return rng.choice([1, 0, 5])
    if vt == 'str':
        return rng.choice(['s', ''])
    if vt == 'A':
        return rng.choice(['@A', '@B', '@C'])
    if vt == 'B':
        return '@B'
    if vt == 'intstr':
        return rng.choice([2, 't'])
    if vt == 'intdict':
        return rng.choice([1, 5, {'m': 2}, {}])
    if vt == 'dict':
        # a mapping that is the VALUE of a leaf port (a plain dict, or a dict subclass)
        return rng.choice([{'@LEAF': True, 'p': 1}, {'@LEAF': True, '@OD': True, 'p': 1, 'q': 's'}, {'@LEAF': True}])
    if vt == 'OD':
        return rng.choice([{'@LEAF': True, '@OD': True, 'p': 1}, {'@LEAF': True, '@OD': True}])
    return rng.choice([1, 's', None, '@A', 0])


def _bad_value(rng, vt):
    if vt in ('int',):
        return rng.choice(['s', None, '@A', {}])
    if vt == 'str':
        return rng.choice([1, None, {}])
    if vt == 'A':
        return rng.choice([1, 's'])
    if vt == 'B':
        return rng.choice(['@A', 1])
    if vt == 'intstr':
        return rng.choice([None, '@A'])
    if vt == 'intdict':
        return rng.choice(['s', {'m': 's'}, None, {'m': {'n': 't'}}])
    if vt == 'dict':
        return rng.choice([1, 's', None])
    if vt == 'OD':
        return rng.choice([{'@LEAF': True, 'p': 1}, 1])  # (a plain dict is not an OrderedDict)
    return None


def rand_port(rng):
    attrs = {}
    r = rng.random()
    if r < 0.3:
        attrs['required'] = False
    vt = rng.choice([None, None, 'int', 'str', 'A', 'B', 'intstr'])
    if rng.random() < 0.08:
        vt = rng.choice(['dict', 'OD'])
    if vt:
        attrs['valid_type'] = vt
    if rng.random() < 0.35:
        if rng.random() < 0.06:
            attrs['default'] = ['call', 'd_boom']  # (a factory that fails: without a value for the port no process can be made)
        elif rng.random() < 0.3 and vt in (None, 'int', 'intstr', 'str'):
            attrs['default'] = ['call', 'd_s' if vt == 'str' else 'd7']
        elif rng.random() < 0.3 and vt in (None, 'A'):
            attrs['default'] = ['call', 'cls_A' if vt == 'A' else rng.choice(['cls_A', 'cls_list', 'serial'])]
        else:
            val = _good_value(rng, vt)
            if val != 1:
                attrs['default'] = ['val', val]
    if rng.random() < 0.2 and vt in (None, 'int', 'intstr'):
        attrs['validator'] = rng.choice(['v_not1', 'v_not1', 'v_not1', 'v_not1_old', 'v_not1_old', 'v_not1_raises', 'v_not1_empty'])
    if rng.random() < 0.1 and (vt or 'validator' in attrs):
        # the type / validator are set through the property setters after the port was declared (a sub class tightening an inherited
        # port): the default in place need not conform any more, which must show as soon as it is used
        attrs['late'] = True
        bad = 1 if 'validator' in attrs and rng.random() < 0.5 else _bad_value(rng, vt)
        if not isinstance(bad, dict) and rng.random() < 0.7:
            attrs['default'] = ['val', bad]
    return ['port', attrs]


def rand_ns(rng, depth):
    attrs = {}
    if rng.random() < 0.3:
        attrs['required'] = False
    if rng.random() < 0.3:
        attrs['dynamic'] = True
    if rng.random() < 0.2:
        attrs['valid_type'] = rng.choice(['int', 'str', 'A'])
    if rng.random() < 0.25:
        attrs['populate_defaults'] = False
    if rng.random() < 0.2:
        attrs['validator'] = 'nsv_no_x' if rng.random() < 0.6 else 'nsv_no_x_old'
    elif rng.random() < 0.06:
        attrs['validator'] = 'nsv_some'
    children = {}
    for name in rng.sample(NAMES, rng.randint(0, 3)):
        children[name] = rand_ns(rng, depth - 1) if depth > 0 and rng.random() < 0.4 else rand_port(rng)
    if children and rng.random() < 0.25:
        # a default for the namespace itself: empty, or holding (empty) mappings for the namespaces declared below it, which are
        # completed with *their* defaults for each process anew
        subs = [n for n, d in children.items() if d[0] == 'ns']
        attrs['default'] = ['val', {n: {} for n in subs} if subs and rng.random() < 0.6 else {}]
    return ['ns', attrs, children]


def rand_inputs(rng, ns):
    """Inputs guided by the spec so that both acceptance and every rejection cause are frequent."""
    _k, attrs, children = ns
    out = {}
    for name, d in children.items():
        r = rng.random()
        if d[0] == 'port':
            vt = d[1].get('valid_type')
            if r < 0.3:
                continue
            if r < 0.75:
                out[name] = _good_value(rng, vt)
            elif r < 0.9:
                out[name] = _bad_value(rng, vt)
            else:
                out[name] = rng.choice([None, {}, 1])
        else:
            if r < 0.3:
                continue
            if r < 0.8:
                out[name] = rand_inputs(rng, d)
                if rng.random() < 0.15:
                    out[name]['@OD'] = True  # marker: hand this nested mapping over as an OrderedDict
                elif rng.random() < 0.1:
                    out[name]['@UD'] = True  # marker: ... as a collections.UserDict
                elif rng.random() < 0.1:
                    out[name]['@FD'] = True  # marker: ... as an AttributesFrozendict (read-only mapping)
            elif r < 0.9:
                out[name] = {}
            else:
                out[name] = rng.choice([5, None, 's', '@A', '', [], 0])
    # one and the same dictionary object handed over for two namespaces (e.g. common options built once by the caller)
    nss = [n for n, d in children.items() if d[0] == 'ns' and isinstance(out.get(n), dict) and not any(k.startswith('@') for k in out[n])]
    if len(nss) >= 2 and rng.random() < 0.5:
        if rng.random() < 0.75:
            out[nss[0]] = {}  # (an empty one: each namespace fills in its own defaults)
        out[nss[1]] = {'@SAME': nss[0]}
    # undeclared keys
    r = rng.random()
    if r < 0.35:
        dyn_vt = attrs.get('valid_type')
        key = rng.choice([k for k in ('q', 'x', 'zz') if k not in children])
        choice = rng.random()
        if choice < 0.5:
            out[key] = _good_value(rng, dyn_vt)
        elif choice < 0.7:
            out[key] = {'r': _good_value(rng, dyn_vt), 'deep': {'t': _good_value(rng, dyn_vt)}}
        elif choice < 0.78:
            out[key] = {'r': _bad_value(rng, dyn_vt)}
        elif choice < 0.9:
            # several entries at a level, the wrong one not the first (nor necessarily at the first level)
            out[key] = {'r': _good_value(rng, dyn_vt), 's': _bad_value(rng, dyn_vt)} if rng.random() < 0.5 else {
                'r': _good_value(rng, dyn_vt), 'deep': {'t': _good_value(rng, dyn_vt), 'u': _bad_value(rng, dyn_vt)}}
        else:
            out[key] = {}
    return out


def _real(value):
    if value == '@A':
        return A()
    if value == '@B':
        return B()
    if value == '@C':
        return C()
    if isinstance(value, dict):
        out = {k: _real(v) for k, v in value.items() if k not in ('@OD', '@UD', '@FD', '@LEAF')}
        for k, v in value.items():
            if isinstance(v, dict) and '@SAME' in v:
                out[k] = out[v['@SAME']]  # the very same object
        if value.get('@OD'):
            return collections.OrderedDict(out)  # a dict subclass given by the caller
        if value.get('@UD'):
            return collections.UserDict(out)  # a mutable mapping that is not a dict
        if value.get('@FD'):
            return plumpy.utils.AttributesFrozendict(out)  # e.g. the parsed sub-inputs of another process, handed on
        return out
    return value


def _factory_specs():
    """Specs in which factory (callable) defaults sit one, two and three levels below a namespace that has a plain default naming the
    namespaces below it: the declared default is a template, never the object a process works on."""
    leafs = {'a': ['port', {'default': ['call', 'serial']}], 'ab': ['port', {'default': ['call', 'cls_list']}], 'n': ['port', {'default': ['val', 5], 'valid_type': 'int'}]}
    m = ['ns', {}, dict(leafs)]
    yield ['ns', {}, {'x': ['ns', {'default': ['val', {'m': {}}]}, {'m': m}]}]
    yield ['ns', {}, {'x': ['ns', {'default': ['val', {'m': {'m': {}}}]}, {'m': ['ns', {}, {'m': copy.deepcopy(m), 'n': ['port', {'default': ['call', 'cls_A']}]}]}]}]
    yield ['ns', {}, {'x': ['ns', {'default': ['val', {}]}, dict(leafs)], 'm': copy.deepcopy(m)}]
    # ... and namespaces whose default is a callable: what it returns is a value given for the namespace like any other (completed with
    # the defaults of what is declared inside, read-only at every declared level)
    yield ['ns', {}, {'x': ['ns', {'default': ['call', 'ns_empty']}, dict(leafs)]}]
    yield ['ns', {}, {'x': ['ns', {'default': ['call', 'ns_partial']}, {'n': ['port', {'valid_type': 'int'}], 'ab': ['port', {'default': ['val', 's'], 'valid_type': 'str'}],
                                                                        'm': ['ns', {}, {'a': ['port', {'default': ['val', 3]}]}]}]}]


def _sibling_specs():
    """Two sibling namespaces with the same port names and different defaults (plain, callable, none), one port that only one of them
    declares: what the caller hands over for both may be one and the same dictionary object (common settings built once)."""
    relax = ['ns', {}, {'n': ['port', {'default': ['val', 5], 'valid_type': 'int'}], 'a': ['port', {'default': ['call', 'serial']}], 'ab': ['port', {'default': ['val', 's'], 'valid_type': 'str'}]}]
    final = ['ns', {}, {'n': ['port', {'default': ['val', 7], 'valid_type': 'int'}], 'a': ['port', {'default': ['call', 'cls_list']}], 'm': ['port', {'default': ['val', 1]}]}]
    yield ['ns', {}, {'x': copy.deepcopy(relax), 'm': copy.deepcopy(final)}]
    yield ['ns', {}, {'x': copy.deepcopy(final), 'm': copy.deepcopy(relax), 'n': ['port', {'default': ['val', 0]}]}]
    yield ['ns', {}, {'a': ['ns', {}, {'x': copy.deepcopy(relax), 'm': copy.deepcopy(final)}]}]


def _implicit_specs():
    """Namespaces that are never declared themselves, only through the dotted paths of their ports: optional and required ports in either order."""
    opt, req, dflt = ['port', {'required': False}], ['port', {}], ['port', {'default': ['val', 5], 'valid_type': 'int'}]
    yield ['ns', {}, {'x': ['ns', {}, {'a': opt, 'n': req}]}]
    yield ['ns', {}, {'x': ['ns', {}, {'n': req, 'a': opt}]}]
    yield ['ns', {}, {'x': ['ns', {}, {'a': dflt, 'n': req, 'm': ['ns', {}, {'ab': opt, 'a': req}]}], 'm': req}]
    yield ['ns', {}, {'m': ['ns', {}, {'x': ['ns', {}, {'a': opt, 'ab': dflt, 'n': req}]}]}]


def gen_cases(tier, seed):
    for k, spec in enumerate(_implicit_specs()):
        for inputs in (None, {}, {'x': {}}, {'x': {'n': 1}}, {'x': {'n': 1, 'm': {}}, 'm': 2}, {'x': {'n': 1, 'm': {'a': 1}}, 'm': 2}, {'m': {}}, {'m': {'x': {}}}, {'m': {'x': {'n': 3}}}):
            yield {'spec': spec, 'inputs': inputs, 'si': 300000 + 3 * k, 'dotted': True}
            yield {'spec': spec, 'inputs': inputs, 'si': 300000 + 3 * k}
    for k, spec in enumerate(_sibling_specs()):
        top = 'a' if 'a' in spec[2] and spec[2]['a'][0] == 'ns' else None
        for shared in ({}, {'n': 3}, {'a': '@A'}):
            inputs = {'x': dict(shared), 'm': {'@SAME': 'x'}}
            inputs = {top: inputs} if top else inputs
            yield {'spec': spec, 'inputs': inputs, 'si': 200000 + 3 * k}
            yield {'spec': spec, 'inputs': inputs, 'si': 200000 + 3 * k, 'exposed': True}
    for k, spec in enumerate(_factory_specs()):
        for inputs in (None, {}, {'x': {}}, {'x': {'m': {}}}):
            yield {'spec': spec, 'inputs': inputs, 'si': 100000 + 3 * k}
            yield {'spec': spec, 'inputs': inputs, 'si': 100000 + 3 * k, 'exposed': True}
    rng = plans.rng_for(seed, 'c11')
    nspecs, ninputs, depth = (250, 40, 2) if tier == 'quick' else (4000, 60, 3)
    for s in range(nspecs):
        spec = rand_ns(rng, depth)
        spec[1].pop('populate_defaults', None)
        spec[1].pop('default', None)
        if rng.random() < 0.7:
            spec[1].pop('required', None)
        for i in range(ninputs):
            if i == 0:
                inputs = None
            elif i == 1:
                inputs = {}
            else:
                inputs = rand_inputs(rng, spec)
            yield {'spec': spec, 'inputs': inputs, 'si': s}
            if s % 4 == 0 and i % 2 == 0:
                yield {'spec': spec, 'inputs': inputs, 'si': s, 'exposed': True}
            if s % 4 == 2 and i % 2 == 0 and _first_nested(spec[2]) is not None:
                yield {'spec': spec, 'inputs': inputs, 'si': s, 'exposed': 'extra'}
            if s % 4 == 1 and i % 3 == 0 and "'late'" not in repr(spec):
                yield {'spec': spec, 'inputs': inputs, 'si': s, 'dotted': True}
            if s % 4 == 3 and i % 3 == 0 and "'late'" not in repr(spec):
                yield {'spec': spec, 'inputs': inputs, 'si': s, 'dotted': 'redeclare'}


# ---------------------------------------------------------------------------------------
# building the real spec
# ---------------------------------------------------------------------------------------
def _port_kwargs(attrs):
    kw = {}
    for k, v in attrs.items():
        if k == 'valid_type':
            kw[k] = TYPES[v]
        elif k == 'validator':
            kw[k] = VALIDATORS[v]
        elif k == 'default':
            kw[k] = CALLABLES[v[1]] if v[0] == 'call' else _real(v[1])
        else:
            kw[k] = v
    return kw


def build(ns, children):
    for name, d in children.items():
        if d[0] == 'port' and d[1].get('late'):
            kw = _port_kwargs({k: v for k, v in d[1].items() if k != 'late'})
            port = InputPort(name, **{k: v for k, v in kw.items() if k not in ('valid_type', 'validator')})
            for k in ('valid_type', 'validator'):
                if k in kw:
                    setattr(port, k, kw[k])
            ns[name] = port
        elif d[0] == 'port':
            ns[name] = InputPort(name, **_port_kwargs(d[1]))
        else:
            sub = PortNamespace(name, **_port_kwargs(d[1]))
            ns[name] = sub
            build(sub, d[2])


_CLS = {}
FLAKY_DEFINES = []


class Queued(plumpy.process_states.State):
    """An application's own class for the CREATED state, written from scratch on top of ``State`` (states are identified by their
    label): whatever class stands for CREATED, the inputs are checked when the process is created."""
    LABEL = plumpy.ProcessState.CREATED
    ALLOWED = {plumpy.ProcessState.RUNNING, plumpy.ProcessState.KILLED, plumpy.ProcessState.EXCEPTED}

    def __init__(self, process, run_fn, *args, **kwargs):
        super().__init__(process)
        self.run_fn = run_fn
        self.args = args
        self.kwargs = kwargs

    def execute(self):
        return self.create_state(plumpy.ProcessState.RUNNING, self.run_fn, *self.args, **self.kwargs)


class OwnCreatedState(plumpy.Process):
    @classmethod
    def get_state_classes(cls):
        states = dict(super().get_state_classes())
        states[plumpy.ProcessState.CREATED] = Queued
        return states


def _first_nested(children, prefix=''):
    """Path of the first nested namespace of the description that has ports and no 'zz' of its own (None if there is none)."""
    for name, d in children.items():
        if d[0] == 'ns' and d[2] and 'zz' not in d[2] and not d[1].get('valid_type') and 'default' not in d[1]:
            return prefix + name
    return None


def with_extra_port(spec):
    """The description of what the exposing class of the 'extra' variant declares: the spec plus the port 'zz' (default 3)."""
    path = _first_nested(spec[2])
    if path is None:
        return spec
    out = copy.deepcopy(spec)
    out[2][path][2]['zz'] = ['port', {'default': ['val', 3]}]
    return out


def _declare_dotted(pspec, children, prefix='', redeclare=False):
    """Declare the ports by their dotted paths (``spec.input('opts.verbose', ...)``): a namespace that has no settings of its own is never
    declared, it comes into being with the first port below it -- and is the same namespace whichever port that happens to be."""
    for name, d in children.items():
        path = prefix + name
        if d[0] == 'port':
            pspec.input(path, **_port_kwargs(d[1]))
        else:
            if d[1] or not d[2]:
                first = next((n for n, c in d[2].items() if c[0] == 'port'), None)
                if redeclare and first is not None:
                    # (a port of the namespace is declared by its dotted path before the namespace itself is: the declaration of the
                    # namespace that follows is the one that counts, and everything below it is declared after it)
                    pspec.input(path + '.' + first, **_port_kwargs(d[2][first][1]))
                pspec.input_namespace(path, **_port_kwargs(d[1]))
            _declare_dotted(pspec, d[2], path + '.', redeclare)


def spec_class(spec, si, exposed=False, dotted=False):
    if dotted:
        key = 'dotted:%s:' % dotted + repr(spec)
        if key in _CLS:
            return _CLS[key]
        top_attrs_, children_ = spec[1], spec[2]

        def define_dotted(cls, pspec):
            super(cls, cls).define(pspec)
            for k, v in _port_kwargs(top_attrs_).items():
                setattr(pspec.inputs, k, v)
            _declare_dotted(pspec, children_, redeclare=dotted == 'redeclare')

        cls = type('Dot_%d' % len(_CLS), (plumpy.Process,), {})
        cls.define = classmethod(define_dotted)
        generated.register(cls)
        try:
            cls.spec()
        except ValueError as exc:
            cls = ('spec-error', str(exc))
        _CLS[key] = cls
        return cls
    if exposed:
        # the same ports arrive in the spec of another class through expose_inputs() (no namespace, nothing excluded): what is
        # accepted and how it is parsed follows the declaration, whichever way it reached the spec
        key = 'exposed:%s:' % exposed + repr(spec)
        if key in _CLS:
            return _CLS[key]
        base = spec_class(spec, si)
        if isinstance(base, tuple):
            return base
        extra_path = _first_nested(spec[2]) if exposed == 'extra' else None
        if exposed == 'extra':
            # (the exposed class has been used before the exposing one is built: processes of it were constructed, or attempted)
            for inputs in (None, {}):
                try:
                    base(inputs=inputs)
                except Exception:  # noqa: BLE001
                    pass

        def define_exposing(cls, pspec):
            super(cls, cls).define(pspec)
            pspec.expose_inputs(base)
            if extra_path is not None:
                # ... and the exposing class declares one more port, with a default, inside a namespace it exposed
                pspec.input(extra_path + '.zz', default=3)

        cls = type('Ex_%d' % len(_CLS), (plumpy.Process,), {})
        cls.define = classmethod(define_exposing)
        generated.register(cls)
        cls.spec()
        _CLS[key] = cls
        return cls
    key = repr(spec)
    if key in _CLS:
        return _CLS[key]
    top_attrs, children = spec[1], spec[2]

    flaky = {'left': 1 if si % 7 == 3 else 0}

    def define(cls, pspec):
        super(cls, cls).define(pspec)
        if flaky['left']:
            # (every seventh class: the first attempt to build its spec fails half-way for a reason that has nothing to do with the
            # declarations -- something it looks up is not there yet; the next attempt builds the whole spec)
            flaky['left'] -= 1
            FLAKY_DEFINES.append(si)
            raise LookupError('a resource needed to define the spec is not available yet')
        for k, v in _port_kwargs(top_attrs).items():
            setattr(pspec.inputs, k, v)
        build(pspec.inputs, children)

    # (every third class has a CREATED state class of its own)
    cls = type('In_%d' % len(_CLS), (OwnCreatedState if si % 3 == 2 else plumpy.Process,), {})
    cls.define = classmethod(define)
    generated.register(cls)
    try:
        try:
            cls.spec()
        except LookupError:
            cls.spec()  # (the second attempt, after the transient failure of the first)
    except ValueError as exc:
        cls = ('spec-error', str(exc))
    _CLS[key] = cls
    return cls


# ---------------------------------------------------------------------------------------
# reference model
# ---------------------------------------------------------------------------------------
class Reject(Exception):
    pass


def model_populate(children, given, stats):
    if isinstance(given, (collections.UserDict, plumpy.utils.Frozendict)):
        given = dict(given)  # any mapping will do
    if not isinstance(given, dict):
        raise Reject('namespace value is not a dictionary')
    out = dict(given)
    for name, d in children.items():
        isns = d[0] == 'ns'
        attrs = d[1]
        if name not in given:
            if isns and not attrs.get('populate_defaults', True):
                stats['populate_defaults_false'] = stats.get('populate_defaults_false', 0) + 1
                continue
            if 'default' in attrs:
                kind, val = attrs['default']
                if kind == 'call' and val == 'd_boom':
                    stats['failing_factory_defaults'] = stats.get('failing_factory_defaults', 0) + 1
                    raise Reject('the factory of the default of %s fails' % name)
                v = CALLABLES[val]() if kind == 'call' else copy.deepcopy(_real(val))
                stats['defaults_populated'] = stats.get('defaults_populated', 0) + 1
                if kind == 'call':
                    stats['callable_defaults'] = stats.get('callable_defaults', 0) + 1
            elif isns and d[2]:
                v = {}
            else:
                continue
        else:
            v = given[name]
        out[name] = model_populate(d[2], v, stats) if isns else v
    return out


def _leaves_ok(x, vt):
    if isinstance(x, dict):
        return all(_leaves_ok(y, vt) for y in x.values())
    return isinstance(x, vt)


def model_valid_ns(attrs, children, values, stats, top=False, depth=0):
    if values is None or (isinstance(values, tuple) and not values):
        values = {}  # None and the UNSPECIFIED marker () stand for "nothing given"
    if isinstance(values, (collections.UserDict, plumpy.utils.Frozendict)):
        values = dict(values)
    if not isinstance(values, dict):
        raise Reject('not a mapping')
    required = attrs.get('required', True)
    if not values and not required:
        return
    stats['nested_ns_levels'] = max(stats.get('nested_ns_levels', 0), depth)
    rest = dict(values)
    for name, d in children.items():
        v = rest.pop(name, UN)
        if d[0] == 'port':
            a = d[1]
            req = a.get('required', True) and 'default' not in a
            if v is UN:
                if req:
                    raise Reject('required port %s missing' % name)
                continue
            vt = a.get('valid_type')
            if vt is not None and not isinstance(v, TYPES[vt]):
                raise Reject('port %s wrong type' % name)
            if a.get('validator') and MODEL_VALIDATORS[a['validator']](v, None) is not None:
                raise Reject('port %s validator' % name)
        else:
            model_valid_ns(d[1], d[2], {} if v is UN else v, stats, depth=depth + 1)
    vt = attrs.get('valid_type')
    dyn = attrs.get('dynamic', False) or vt is not None
    if rest and not dyn:
        raise Reject('undeclared keys %s in non-dynamic namespace' % sorted(rest))
    if rest:
        stats['dynamic_values'] = stats.get('dynamic_values', 0) + 1
    if vt is not None and not all(_leaves_ok(x, TYPES[vt]) for x in rest.values()):
        raise Reject('dynamic value of wrong type')
    if attrs.get('validator') and MODEL_VALIDATORS[attrs['validator']](values, None) is not None:
        raise Reject('namespace validator')


def model(spec, inputs, stats):
    given = {} if inputs is None else inputs
    populated = model_populate(spec[2], given, stats)
    top = dict(spec[1])
    model_valid_ns(top, spec[2], populated, stats, top=True)
    return populated


def plain(x):
    if isinstance(x, (dict, plumpy.utils.Frozendict, collections.UserDict)):
        return {k: plain(v) for k, v in x.items()}
    return x


# ---------------------------------------------------------------------------------------
def _callable_default_pairs(children, given, v1, v2, path):
    """(path, callable, value in the first process, value in the second) for the ports whose value came from a factory default."""
    is_map = isinstance(given, collections.abc.Mapping)
    for name, d in children.items():
        if name not in v1 or name not in v2:
            continue
        if d[0] == 'ns':
            if isinstance(v1[name], collections.abc.Mapping) and isinstance(v2[name], collections.abc.Mapping):
                for item in _callable_default_pairs(d[2], given.get(name) if is_map else None, v1[name], v2[name], path + name + '.'):
                    yield item
        elif d[1].get('default', [None])[0] == 'call' and d[1]['default'][1] in ('cls_A', 'cls_list', 'serial') and not (is_map and name in given):
            yield path + name, d[1]['default'][1], v1[name], v2[name]


def _construct(cls, inputs):
    import asyncio
    loop = _loop()
    try:
        proc = cls(inputs=inputs, loop=loop)
        return proc, None
    except Exception as exc:  # noqa: BLE001
        return None, exc


_LOOP = []


def _loop():
    import asyncio
    if not _LOOP:
        _LOOP.append(asyncio.new_event_loop())
        asyncio.set_event_loop(_LOOP[0])
    return _LOOP[0]


def _snapshot(d):
    """Structure + leaf identities of the caller's dictionary."""
    if isinstance(d, (dict, collections.UserDict)):
        return ('dict', id(d), {k: _snapshot(v) for k, v in d.items()})
    return ('leaf', id(d), repr(d))


def _frozen_levels(inputs, children, path=''):
    """(path, mapping) for the top level and every declared namespace level present in inputs."""
    out = [(path or '<top>', inputs)]
    for name, d in children.items():
        if d[0] == 'ns' and name in inputs:
            out.extend(_frozen_levels(inputs[name], d[2], path + name + '.'))
    return out


def _unaliased(value):
    """A copy for the reference model in which no mapping occurs twice (``copy.deepcopy`` keeps one object given for two namespaces one
    object, and a model that fills defaults into what it is given would then share the very defect it is there to notice)."""
    if isinstance(value, collections.OrderedDict):
        return collections.OrderedDict((k, _unaliased(v)) for k, v in value.items())
    if isinstance(value, collections.UserDict):
        return collections.UserDict({k: _unaliased(v) for k, v in value.items()})
    if isinstance(value, plumpy.utils.AttributesFrozendict):
        return plumpy.utils.AttributesFrozendict({k: _unaliased(v) for k, v in value.items()})
    if isinstance(value, dict):
        return {k: _unaliased(v) for k, v in value.items()}
    if isinstance(value, list):
        return [_unaliased(v) for v in value]
    return copy.deepcopy(value)


def run_case(case):
    V = judges.V
    spec, inputs_desc = case['spec'], case['inputs']
    cls = spec_class(spec, case['si'], exposed=case.get('exposed') or False, dotted=case.get('dotted') or False)
    if case.get('exposed') == 'extra':
        spec = with_extra_port(spec)  # (what the exposing class declares, for the model and the shape in messages)
    obs = {'specs_built_at_the_second_attempt': int(case['si'] in FLAKY_DEFINES and not case.get('dotted')), 'namespaces_declared_after_a_port_of_theirs': int(case.get('dotted') == 'redeclare'), 'declared_by_dotted_paths': int(bool(case.get('dotted'))), 'aliased_namespace_values': int('@SAME' in json.dumps(inputs_desc)), 'exposed_specs': int(bool(case.get('exposed'))), 'legacy_validators': int('_old' in json.dumps(spec)), 'constructed': 0, 'accepted': 0, 'rejected': 0, 'defaults_populated': 0, 'callable_defaults': 0, 'populate_defaults_false': 0,
           'dynamic_values': 0, 'immutability_probes': 0, 'caller_dict_checks': 0, 'metamorphic': {}, 'nested_ns_levels': 0, 'spec_errors': 0}
    if isinstance(cls, tuple):
        obs['spec_errors'] = 1
        return {'viol': [], 'obs': obs, 'key': case, 'nontrivial': False}
    inputs = _real(inputs_desc) if inputs_desc is not None else None
    given_copy = copy.deepcopy(inputs)
    snap = _snapshot(inputs)
    viol = []
    stats = {}
    try:
        expected = model(spec, _unaliased(inputs), stats)
        verdict = 'accept'
        why = ''
    except Reject as rej:
        expected, verdict, why = None, 'reject', str(rej)
    for k in ('defaults_populated', 'callable_defaults', 'populate_defaults_false', 'dynamic_values', 'failing_factory_defaults'):
        obs[k] = stats.get(k, 0)
    obs['nested_ns_levels'] = 1 if stats.get('nested_ns_levels', 0) >= 2 else 0
    proc, exc = _construct(cls, inputs)
    obs['constructed'] = 1
    obs['own_created_state_class'] = int(isinstance(cls, type) and issubclass(cls, OwnCreatedState))
    shape = _shape(spec)
    if proc is None:
        obs['rejected'] = 1
        if verdict == 'accept' and '@FD' in json.dumps(inputs_desc):
            # a read-only mapping given for a namespace may be refused (its defaults cannot be filled in place); if it is
            # accepted, everything below applies to it as to any other mapping
            obs['frozen_namespace_values'] = 1
        elif verdict == 'accept':
            viol.append(V('rejected-valid', 'rejected-valid:%s' % type(exc).__name__, 'construction raised %r but the inputs conform (spec %s, inputs %r)' % (exc, shape, inputs_desc)))
    else:
        obs['accepted'] = 1
        if verdict == 'reject':
            viol.append(V('accepted-invalid', 'accepted-invalid:%s' % why.split(' ')[0:3].__repr__(), 'process constructed although %s (spec %s, inputs %r)' % (why, shape, inputs_desc)))
        else:
            got = plain(proc.inputs)
            if got != expected:
                viol.append(V('inputs-differ', 'inputs-differ', 'inputs %r, expected %r (spec %s, given %r)' % (got, expected, shape, inputs_desc)))
            # a mapping given as the VALUE of a leaf port arrives as the object it is (same type), not as a namespace-like copy
            for name, d in spec[2].items():
                if d[0] == 'port' and isinstance(inputs, dict) and isinstance(inputs.get(name), dict) and name in proc.inputs:
                    obs['mapping_leaf_values'] = obs.get('mapping_leaf_values', 0) + 1
                    if type(proc.inputs[name]) is not type(inputs[name]):
                        viol.append(V('leaf-value-type-changed', 'leaf-value-type-changed:%s->%s' % (type(inputs[name]).__name__, type(proc.inputs[name]).__name__),
                                      'the value given for port %s is a %s, inputs holds a %s' % (name, type(inputs[name]).__name__, type(proc.inputs[name]).__name__)))
            # raw_inputs exactly as given
            raw = proc.raw_inputs
            if (raw is None) != (inputs is None) or (raw is not None and plain(raw) != given_copy):
                viol.append(V('raw-inputs-changed', 'raw-inputs-changed', 'raw_inputs %r, given %r' % (plain(raw) if raw is not None else None, given_copy)))
            # read-only at every declared namespace level
            for path, mapping in _frozen_levels(proc.inputs, spec[2]):
                before = plain(mapping)
                for probe in ('setitem', 'delitem', 'update', 'pop', 'setdefault', 'clear'):
                    obs['immutability_probes'] += 1
                    try:
                        if probe == 'setitem':
                            mapping['zz_new'] = 1
                        elif probe == 'delitem':
                            del mapping[next(iter(mapping), 'zz')]
                        elif probe == 'update':
                            mapping.update({'zz_new': 1})
                        elif probe == 'pop':
                            mapping.pop(next(iter(mapping), 'zz'), None)
                        elif probe == 'setdefault':
                            mapping.setdefault('zz_new', 1)
                        else:
                            mapping.clear()
                        changed = plain(mapping) != before
                        if changed:
                            viol.append(V('inputs-mutable', 'inputs-mutable:%s' % probe, 'inputs level %s could be changed through %s' % (path, probe)))
                            break
                    except (TypeError, AttributeError, KeyError):
                        pass
    # the caller's dictionary stays exactly as given (also when construction was rejected)
    if inputs is not None:
        obs['caller_dict_checks'] = 1
        if _snapshot(inputs) != snap:
            viol.append(V('caller-dict-changed', 'caller-dict-changed:%s' % ('accepted' if proc is not None else 'rejected'),
                          'the caller\'s dictionary was modified: now %r, given %r' % (inputs, given_copy)))
    # raw_inputs is the process's own record of what it was given: a key the caller adds to its dictionary afterwards is not in it
    if proc is not None and isinstance(inputs, dict):
        raw_before = plain(proc.raw_inputs) if proc.raw_inputs is not None else None
        inputs['zz_added_later'] = 1
        obs['later_caller_changes'] = 1
        if (plain(proc.raw_inputs) if proc.raw_inputs is not None else None) != raw_before:
            viol.append(V('raw-inputs-follow-caller', 'raw-inputs-follow-caller', 'a key added to the caller\'s dictionary after the construction shows in raw_inputs: %r' % (
                plain(proc.raw_inputs),)))
        del inputs['zz_added_later']
    # a second process of the class, given the same: every callable default is evaluated again for it (the objects a factory makes are
    # not shared between processes)
    if proc is not None and verdict == 'accept':
        second, exc2 = _construct(cls, _real(inputs_desc) if inputs_desc is not None else None)
        if second is None:
            viol.append(V('second-construction-differs', 'second-construction-differs:raised', 'a second process given the same inputs could not be constructed: %r (spec %s, inputs %r)' % (exc2, shape, inputs_desc)))
        else:
            if plain(second.inputs) != expected:
                viol.append(V('second-construction-differs', 'second-construction-differs:inputs', 'a second process given the same inputs has inputs %r, expected %r (spec %s)' % (plain(second.inputs), expected, shape)))
            for path, which, v1, v2 in _callable_default_pairs(spec[2], inputs, proc.inputs, second.inputs, ''):
                obs['factory_defaults_compared'] = obs.get('factory_defaults_compared', 0) + 1
                if v1 is v2 or (isinstance(v1, Serial) and isinstance(v2, Serial) and v1.n == v2.n):
                    viol.append(V('callable-default-not-reevaluated', 'callable-default-not-reevaluated:%s' % which,
                                  'two processes of one class constructed with inputs %r share the object their callable default %s made for port %s (spec %s)' % (inputs_desc, which, path, shape)))
    # metamorphic relations (model independent)
    has_od_port = '"valid_type": "OD"' in json.dumps(spec)  # (plain() turns an OrderedDict leaf value into a dict, which such a port refuses)
    if proc is not None and verdict == 'accept' and has_od_port:
        obs['metamorphic']['skipped_for_typed_mapping_leaf'] = 1
    if proc is not None and verdict == 'accept' and not has_od_port:
        again, exc2 = _construct(cls, plain(proc.inputs))
        obs['metamorphic']['idempotent'] = 1
        if again is None or plain(again.inputs) != plain(proc.inputs):
            viol.append(V('not-idempotent', 'not-idempotent', 'feeding the accepted inputs back in gives %r / %r (spec %s, inputs %r)' % (
                exc2, plain(again.inputs) if again else None, shape, plain(proc.inputs))))
        # remove the value of a required top-level port without default -> rejection
        for name, d in spec[2].items():
            if d[0] == 'port' and d[1].get('required', True) and 'default' not in d[1] and inputs and name in inputs:
                less = {k: v for k, v in inputs.items() if k != name}
                if not less and not spec[1].get('required', True):
                    break  # an empty, not-required namespace is valid as a whole
                p3, _e = _construct(cls, less)
                obs['metamorphic']['remove_required'] = 1
                if p3 is not None:
                    viol.append(V('required-not-enforced', 'required-not-enforced', 'removing required port %s still constructs (spec %s)' % (name, shape)))
                break
        for name, d in spec[2].items():
            if d[0] == 'port' and d[1].get('valid_type') in ('int', 'str') and inputs and name in inputs:
                wrong = dict(inputs)
                wrong[name] = A()
                p4, _e = _construct(cls, wrong)
                obs['metamorphic']['wrong_type'] = 1
                if p4 is not None:
                    viol.append(V('type-not-enforced', 'type-not-enforced', 'a wrong-typed value for %s still constructs (spec %s)' % (name, shape)))
                break
    res = {'viol': judges._dedupe(viol), 'obs': obs, 'key': case, 'nontrivial': _nports(spec) >= 2}
    res['sample'] = {'spec': shape, 'inputs': inputs_desc, 'accepted': proc is not None, 'model': verdict, 'why_rejected': why,
                     'parsed_inputs': repr(plain(proc.inputs)) if proc is not None else None}
    return res


def _nports(ns):
    return sum(1 if d[0] == 'port' else 1 + _nports(d) for d in ns[2].values())


def _shape(ns):
    parts = []
    for name, d in ns[2].items():
        if d[0] == 'port':
            parts.append('%s%s' % (name, _attrs(d[1])))
        else:
            parts.append('%s%s{%s}' % (name, _attrs(d[1]), _shape(d)))
    return _attrs(ns[1]) + ' ' + ', '.join(parts)


def _attrs(a):
    return '(' + ','.join('%s=%s' % (k, v) for k, v in sorted(a.items())) + ')' if a else ''
