"""C02 -- all reports of a terminated process's outcome agree and waiters are released."""
import itertools

from pv import judges, lifecycle, plans, programs, suiterun

ID = 'C02'
TITLE = 'outcome views agree / waiters released'
ANCHORS = ['plumpy.processes:Process.on_finish', 'plumpy.processes:Process.on_except', 'plumpy.processes:Process.on_kill', 'plumpy.processes:Process.on_terminated', 'plumpy.processes:Process.on_close', 'plumpy.processes:Process.step', 'plumpy.processes:Process.result', 'plumpy.processes:Process.killed_msg']
LEVEL = 'exploration'
TECHNIQUE = ('runtime monitoring: agreement check over every public outcome accessor, listener/cleanup counters and the stepping task, at '
             'termination and at the end of each run, under enumerated control-request placements')
RULE = ('programs (ending by value / Stop / UnsuccessfulResult / Kill command / exception / missing required output) x placements of K<=2 '
        '(thorough: sampled K=3) requests from {pause,play,kill,resume} at every slot, kills issued from every listener notification and from '
        'step functions; distinct by (program, plan); non-trivial when the process terminated')
RULE += ('; also: observers that raise from every notification (unprintable exceptions at the endings), listeners registered twice, cleanups that register cleanups, recreated processes whose future is cancelled, falsy exception objects, the future handed out before the run compared with the one handed out after it, and an end-of-test audit of every process the repository\'s own test suite terminates')
ASSUMPTIONS = ['expected outcome is computed from the program text and the request log, not read back from the process',
               'hooks do not raise (C03 owns that)']
REQUIRED = ['detaching_listener_runs', 'suite_audits', 'terminated', 'final/finished', 'final/excepted', 'final/killed', 'kill_while_paused', 'kill_in_step', 'kill_from_listener',
            'unsuccessful_by_outputs', 'raising_listener_runs', 'listener_twice_runs', 'cancellederror_listener_runs', 'failing_cleanup_runs']
ALPHABET = [['pause', 'p'], ['play'], ['kill', 'k'], ['resume', ['v']], ['fail', 'falsy-f'], ['soon_raise', 'c']]  # (fail: with an exception instance that is falsy)
BOUNDS = {'quick': 'basic program family (+required-output variants), K<=2 exhaustive', 'thorough': 'K=3 exhaustive on 4 key programs, + 40 random programs, K=3 sampled'}


DEEP = ('wait_async', 'cont_async', 'out_async', 'wait2')  # thorough: K=3 exhaustive on these


def gen_cases(tier, seed):
    yield {'kind': 'suite', 'name': 'repository-suite', 'plan': []}
    for c in _gen_cases(tier, seed):
        yield c


def _gen_cases(tier, seed):
    progs = {k: (v, False) for k, v in programs.basic_programs().items()}
    progs.update({k: (v, False) for k, v in programs.awkward_programs().items()})
    S = programs.step
    progs['req_missing'] = ({'steps': [S(['cont', [], {}], yields=1), S(['value', 3], yields=1)]}, True)
    progs['req_ok'] = ({'steps': [S(['cont', [], {}], yields=1, fx=[(0, ['out', 'req', 5])]), S(['stop', 4, True], sync=True)]}, True)
    progs['req_bad_type'] = ({'steps': [S(['wait', 'w', None], yields=1, fx=[(1, ['out', 'req', 'notint'])]), S(['value', 9], yields=1)]}, True)
    rng = plans.rng_for(seed, 'c02')
    for n in range(40 if tier == 'thorough' else 8):
        progs['rnd%d' % n] = (programs.random_program(rng, 5), False)
    for name, (prog, req) in sorted(progs.items()):
        n = plans.slots_of(prog)
        plist = [[]]
        plist += list(plans.all_placements(n, ALPHABET, 1))
        plist += list(plans.all_placements(n, ALPHABET, 2))
        for ev in ('running', 'waiting', 'paused', 'played', 'output', 'finished', 'excepted', 'killed'):
            for k in (1, 2):
                plist.append([{'at': ['listener', ev, k], 'act': ['kill', 'k']}])
                plist.append([{'at': 0, 'act': ['pause', 'p']}, {'at': ['listener', ev, k], 'act': ['kill', 'k']}])
        for i in range(len(prog['steps'])):
            plist.append([{'at': ['step', i], 'act': ['kill', 'k']}])
        if tier == 'thorough':
            plist += list(plans.sampled_placements(rng, n, ALPHABET, 3, 1500))
        deep = ()
        if tier == 'thorough' and name in DEEP:
            deep = (p for p in plans.all_placements(n, [['pause', 'p'], ['play'], ['kill', 'k'], ['resume', ['v']]], 3) if True)
        # every observer broken (raises from each notification): each must still get its one terminal notification
        for j, plan in enumerate([[]] + list(plans.all_placements(n, [['pause', 'p'], ['kill', 'k'], ['fail', 'f']], 1))):
            yield {'name': name, 'program': prog, 'plan': plans.uniq(plan, 'r%d' % j), 'drain': True, 'probe': False,
                   'barrage': False, 'listener': 'raising', 'req_output': req}
        # observers that, told of the ending, raise asyncio's CancelledError (they looked at a cancelled future): not an Exception, an
        # observer's fault all the same
        for j, plan in enumerate([[]] + list(plans.all_placements(n, [['pause', 'p'], ['kill', 'k'], ['fail', 'f']], 1))):
            yield {'name': name, 'program': prog, 'plan': plans.uniq(plan, 'b%d' % j), 'drain': True, 'probe': False,
                   'barrage': False, 'listener': 'raising-base', 'req_output': req}
        # cleanups that fail (with an Exception, and with asyncio's CancelledError): tolerated one by one, the others run
        for j, plan in enumerate([[]] + list(plans.all_placements(n, [['pause', 'p'], ['kill', 'k'], ['fail', 'f']], 1))):
            yield {'name': name, 'program': prog, 'plan': plans.uniq(plan, 'fc%d' % j), 'drain': True, 'probe': False,
                   'barrage': False, 'listener': True, 'req_output': req, 'failing_cleanups': 'base' if j % 2 else True}
        # a process recreated from a checkpoint whose future is cancelled (must end KILLED with every view agreeing, like a fresh one)
        for s0 in range(0, n + 1):
            for plan in ([{'at': s0, 'act': ['cancel_future']}], [{'at': s0, 'act': ['pause', 'p']}, {'at': 'q', 'act': ['cancel_future']}]):
                yield {'name': name, 'program': prog, 'plan': plans.uniq(plan, 'c%d' % s0), 'drain': True, 'probe': False,
                       'barrage': False, 'listener': True, 'req_output': req, 'recreate': 'created'}
        # three observers, each of which takes the others off the process when it is told of the ending
        for j, plan in enumerate([[]] + list(plans.all_placements(n, [['pause', 'p'], ['kill', 'k'], ['fail', 'f']], 1))):
            yield {'name': name, 'program': prog, 'plan': plans.uniq(plan, 'd%d' % j), 'drain': True, 'probe': False,
                   'barrage': False, 'listener': 'detaching', 'req_output': req}
        # the same listener registered twice (and another one registered twice, then removed)
        for j, plan in enumerate([[]] + list(plans.all_placements(n, [['pause', 'p'], ['kill', 'k'], ['fail', 'f']], 1))):
            yield {'name': name, 'program': prog, 'plan': plans.uniq(plan, 't%d' % j), 'drain': True, 'probe': False,
                   'barrage': False, 'listener': 'twice', 'req_output': req, 'cleanup_chain': True}
        for i, plan in enumerate(itertools.chain(plist, deep)):
            yield {'name': name, 'program': prog, 'plan': plans.uniq(plan, 'q%d' % i), 'drain': True, 'probe': False,
                          'barrage': False, 'listener': True, 'req_output': req}


def run_suite(case):
    """The repository's own test suite under pv/suitemon.py: every process that terminated during a test is audited at the end of
    that test -- do state, future, exception(), killed() agree?"""
    r = suiterun.run()
    obs = {'terminated': 0, 'final': {}, 'kill_while_paused': 0, 'kill_in_step': 0, 'kill_from_listener': 0, 'unsuccessful_by_outputs': 0, 'views_compared': 0,
           'suite_runs': 1, 'suite_audits': 0, 'suite_audits_by_state': {}}
    if 'error' in r:
        return {'viol': [], 'obs': obs, 'inconclusive': r['error'], 'key': ['suite'], 'nontrivial': False}
    viol = []
    V = judges.V
    for rec in r['records']:
        if rec['kind'] != 'audit':
            continue
        obs['suite_audits'] += 1
        st = rec['views']['state']
        obs['suite_audits_by_state'][st] = obs['suite_audits_by_state'].get(st, 0) + 1
        for problem in rec['problems']:
            viol.append(V('suite-views-disagree', 'suite-views-disagree:%s:%s' % (st, problem.split(' but ')[0][:40]), 'in %s a %s: %s' % (rec['test'], rec['cls'], problem)))
    return {'viol': judges._dedupe(viol), 'obs': obs, 'inconclusive': None, 'key': ['suite'], 'nontrivial': True,
            'sample': {'workload': 'repository test suite under pv.suitemon', 'pytest': r['tail'], 'audits': obs['suite_audits']}}


def run_case(case):
    if case.get('kind') == 'suite':
        return run_suite(case)
    rec = lifecycle.run_case(case)
    viol = judges.judge_c02(rec)
    fin = rec['final']
    obs = {'terminated': int(bool(fin and fin['terminated'])), 'final': {}, 'kill_while_paused': 0, 'kill_in_step': 0, 'kill_from_listener': 0,
           'unsuccessful_by_outputs': 0, 'views_compared': 0, 'raising_listener_runs': int(case.get('listener') == 'raising'), 'cancellederror_listener_runs': int(case.get('listener') == 'raising-base'), 'failing_cleanup_runs': int(bool(case.get('failing_cleanups'))), 'detaching_listener_runs': int(case.get('listener') == 'detaching'), 'listener_twice_runs': int(case.get('listener') == 'twice')}
    if fin:
        obs['final'][fin['state']] = 1
        if fin['terminated']:
            obs['views_compared'] = 9
        if case.get('req_output') and fin['state'] == 'finished' and not programs.outputs_valid_req(fin['outputs']):
            obs['unsuccessful_by_outputs'] = 1
    for a in rec['acts']:
        if a['kind'] == 'kill' and a['live_before']:
            ph = a['phase'].split('/')
            if 'paused' in ph:
                obs['kill_while_paused'] += 1
            if 'stepping' in ph:
                obs['kill_in_step'] += 1
            if a['via'].startswith('listener'):
                obs['kill_from_listener'] += 1
    res = {'viol': viol, 'obs': obs, 'inconclusive': rec['inconclusive'], 'key': [case['name'], case['plan'], case.get('listener'), case.get('recreate')],
           'nontrivial': bool(fin and fin['terminated'])}
    res['sample'] = {'program': case['name'], 'plan': case['plan'], 'final_views': fin, 'task': rec['task']}
    return res
