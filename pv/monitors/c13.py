"""C13 -- a step's return value alone decides what happens next, with exact arguments."""
import copy
import itertools

from pv import judges, persist, plans, programs

ID = 'C13'
TITLE = 'commands: Continue/Wait/Stop/Unsuccessful/Kill with exact arguments'
ANCHORS = ['plumpy.process_states:Running.execute', 'plumpy.process_states:Running._action_command', 'plumpy.process_states:Waiting.execute', 'plumpy.process_states:Waiting.resume']
LEVEL = 'exploration'
TECHNIQUE = ('runtime monitoring: trace monitor on generated continuation functions (recorded positional/keyword arguments) and terminal accessors, '
             'compared with an independent interpreter of the command chain; each chain also run with a checkpoint->fresh-loop restore before every step')
RULE = ('chains of <=4 commands over {Continue(f,*a,**k), Wait(f,msg,data)+resume(v)|resume(), plain value, Stop(v,ok), UnsuccessfulResult(c), '
        'Kill(msg), raise} x argument shapes (no/one/many positional, keyword, mixed, None/falsy values) x sync/async continuations, each run '
        'plain and with every boundary a crash point; distinct by (chain, crash set); non-trivial when a continuation received arguments or a '
        'terminal command was judged')
RULE += ('; also: values with an unusual == (equal to everything / no truth value), tuples, pause requests in the loop iteration of the resume, checkpoints in the window between a step\'s return and the next state, checkpoints written from the paused hook')
ASSUMPTIONS = ['arguments are JSON-representable values (so equality after a pickle round trip is value equality), plus two resume values with an unusual == '
               '(equal to anything; == without a truth value) compared by their repr',
               'reference interpreter written from the property statement']
REQUIRED = ['uncopyable_arguments', 'subclassed_commands', 'paused_hook_checkpoints', 'exit_window_restores', 'resume_with_pause', 'mutating_chains', 'continuations', 'kwargs_checked', 'resume_with_value', 'resume_without_value', 'restored_runs', 'terminal/finished', 'terminal/killed',
            'terminal/excepted', 'unsuccessful']
BOUNDS = {'quick': 'all 2-command chains over the shape alphabet + 300 random chains of length 3-4; restore: all boundaries at once and each singly',
          'thorough': '3000 random chains, every subset of <=2 boundaries'}

ARGSHAPES = [([], {}), ([1], {}), ([1, 'b', None], {}), ([], {'k': 3}), ([0], {'k': None, 'z': [1, 2]}), ([False, ''], {'kw': {'n': 1}}), ([[5, 6], {'m': 1}], {})]
RESUMES = [[True, 'rv'], [True, None], [True, 0], [False, None], [True, {'d': [1]}], [True, '@ANYEQ'], [True, '@NOBOOL'], [True, '@T12'], [True, '@T0'], [True, '@EXCOBJ']]  # ('@EXCOBJ': the wake-up value is an exception object -- a value, nothing is raised)
TERMINALS = [['value', None], ['value', 7], ['value', ''], ['value', '@AWAITABLE'], ['value', '@HASRESULT'], ['value', '@NOCOPY'], ['stop', 'r', True], ['stop', 0, False], ['unsucc', 3], ['unsucc', 0], ['kill', 'bye'], ['kill', '@NOTEXT'], ['raise', 'err']]  # (an exit code may well be 0 or falsy: unsuccessful all the same)


def _chains(tier, seed):
    rng = plans.rng_for(seed, 'c13')
    S = programs.step
    chains = []
    # all two-command chains: one non-terminal x one terminal, both sync/async mixes
    for (a, k), term in itertools.product(ARGSHAPES, TERMINALS):
        for sync0, sync1 in ((True, True), (False, False), (True, False)):
            chains.append(({'steps': [S(['cont', a, k], sync=sync0, yields=0 if sync0 else 1), S(term, sync=sync1, yields=0 if sync1 else 1)]}, []))
    for rv, term in itertools.product(RESUMES, TERMINALS):
        for sync1 in (True, False):
            chains.append(({'steps': [S(['wait', 'm', {'x': 1}], sync=True), S(term, sync=sync1, yields=0 if sync1 else 1)]}, [rv]))
    n = 300 if tier == 'quick' else 3000
    for _ in range(n):
        length = rng.randint(3, 4)
        steps, resumes = [], []
        for i in range(length):
            sync = rng.random() < 0.5
            if i == length - 1:
                ret = list(rng.choice(TERMINALS))
            elif rng.random() < 0.4:
                ret = ['wait', rng.choice([None, 'msg']), rng.choice([None, {'d': i}])]
                resumes.append(list(rng.choice(RESUMES)))
            else:
                a, k = rng.choice(ARGSHAPES)
                ret = ['cont', list(a), dict(k)]
            steps.append(S(ret, sync=sync, yields=0 if sync else rng.randint(0, 2)))
        chains.append(({'steps': steps}, resumes))
    return chains


def gen_cases(tier, seed):
    for case in _gen_uncopyable():
        yield case
    for ci, (prog, resumes) in enumerate(_chains(tier, seed)):
        if ci % 2 and any(isinstance(v, (list, dict)) for st in prog['steps'] if st['ret'][0] == 'cont'
                          for v in list(st['ret'][1]) + list(st['ret'][2].values())):
            prog = dict(prog, mutate_args=True)  # steps mutate their mutable arguments in place
        if ci % 3 == 2:
            prog = dict(prog, own_commands=True)  # the steps return instances of the program's own subclasses of Continue / Wait / Stop / Kill
        nb = len(prog['steps']) + sum(1 for s in prog['steps'] if s['ret'][0] == 'wait')  # boundaries: one RUNNING per step + one WAITING per wait
        crash_sets = [[]] + [[b] for b in range(nb)] + [list(range(nb))]
        if tier == 'thorough':
            crash_sets += [list(c) for c in itertools.combinations(range(nb), 2)]
        for cs in crash_sets:
            yield {'program': prog, 'resumes': resumes, 'crash': cs, 'ci': ci}
        # a checkpoint taken in the window between the return of step k and the next state (from the hooks that run while the RUNNING
        # state is left), then a restore: the restored process is still in that RUNNING state, so step k runs once more and the chain
        # goes on from there exactly as before
        # (not for steps that modify their arguments in place -- the second execution sees the modified ones -- nor for a step returning
        # Wait, whose second execution would shift the harness's numbering of the resume values)
        for k, st in enumerate(prog['steps']):
            if not prog.get('mutate_args') and st['ret'][0] != 'wait':
                yield {'program': prog, 'resumes': resumes, 'crash': [], 'ci': ci, 'exit_crash': k}
        # a pause requested while step k is in flight; the checkpoint is written from the paused hook (after the step has returned its
        # command) and restored: the played process goes on with exactly what the step returned
        for b in range(len(prog['steps'])):
            yield {'program': prog, 'resumes': resumes, 'crash': [], 'ci': ci, 'paused_crash': b}
        if resumes:
            # a pause request arriving in the same loop iteration as the resume (before / after it), played afterwards
            for mode in ('pause-resume', 'resume-pause', 'pause-on-waiting'):
                yield {'program': prog, 'resumes': resumes, 'crash': [], 'ci': ci, 'resume_mode': mode}


def _gen_uncopyable():
    # arguments and wake-up values that cannot be copied (handles, locks, live objects): without a checkpoint in between nothing has to
    # copy them -- the continuation gets them as they are
    S = programs.step
    for sync in (True, False):
        for term in (['value', 7], ['stop', 'r', True]):
            prog = {'steps': [S(['cont', ['@NOCOPY', 1], {'k': '@NOCOPY'}], sync=sync, yields=0 if sync else 1), S(['cont', ['@NOCOPY'], {}], sync=True), S(term, sync=sync, yields=0 if sync else 1)]}
            yield {'program': prog, 'resumes': [], 'crash': [], 'ci': -1, 'uncopyable': True}
            prog = {'steps': [S(['wait', 'm', None], sync=sync, yields=0 if sync else 1), S(term, sync=True)]}
            for value in ('@NOCOPY', '@FUTURE'):  # ('@FUTURE': a pending loop future as the wake-up value -- a value, not something to wait for)
                for mode in (None, 'pause-resume', 'resume-pause'):
                    case = {'program': prog, 'resumes': [[True, value]], 'crash': [], 'ci': -1, 'uncopyable': True}
                    if mode:
                        case['resume_mode'] = mode
                    yield case


def run_case(case):
    prog = case['program']
    cls = programs.program_class(prog)
    resumes = case['resumes']

    def resume_for_wait(j):
        has, val = resumes[j] if j < len(resumes) else [True, 'extra']
        return [programs.special(copy.deepcopy(val))] if has else []  # ('@ANYEQ' / '@NOBOOL': values with an unusual ==)

    xc = case.get('exit_crash')
    r = persist.run_with_crashes(lambda loop: cls(loop=loop), case['crash'], resume_for_wait, resume_mode=case.get('resume_mode', 'plain'),
                                 exit_crashes=() if xc is None else (xc,), paused_crashes=() if case.get('paused_crash') is None else (case['paused_crash'],))
    obs = {'uncopyable_arguments': int(bool(case.get('uncopyable'))), 'continuations': 0, 'kwargs_checked': 0, 'resume_with_value': 0, 'resume_without_value': 0, 'restored_runs': 0, 'terminal': {},
           'unsuccessful': 0, 'resume_with_pause': int(bool(case.get('resume_mode'))), 'paused_hook_checkpoints': 0, 'subclassed_commands': int(bool(prog.get('own_commands')))}
    if r.get('inconclusive'):
        lv = []
        if r['inconclusive'] == 'load-raised':
            lv.append(judges.V('restore-raised', 'restore-raised:%s' % r['load_raised'].split(':')[0],
                               'the checkpoint of a process with a pending continuation cannot be loaded: %s (crash points %s)\n%s' % (r['load_raised'], case['crash'], r['where'])))
        return {'viol': lv, 'obs': obs, 'inconclusive': None if lv else r['inconclusive'], 'key': [prog, case['crash'], case.get('resume_mode'), case.get('exit_crash'), case.get('paused_crash')], 'nontrivial': False}
    exp = programs.expected_run(prog, [(has, programs._jsonable(programs.special(val))) for has, val in resumes])
    got = [[t[1], t[4], t[5]] for t in r['trace'] if t[0] == 'enter']
    if xc is not None and r.get('restores'):
        # the step that had returned when the checkpoint was taken is executed once more after the restore (the restored process is
        # still in that RUNNING state); an implementation that remembers the returned command and goes straight on is right too
        obs['exit_window_restores'] = 1
        if got != exp['enters']:
            exp = dict(exp, enters=exp['enters'][:xc + 1] + exp['enters'][xc:])
    viol = []
    V = judges.V
    shape = '>'.join(_shape(s['ret']) for s in prog['steps'])
    mode = 'restored' if case['crash'] else ('restored-from-exit' if xc is not None else case.get('resume_mode', 'plain'))
    if case.get('paused_crash') is not None:
        mode = 'restored-from-paused-hook'
        obs['paused_hook_checkpoints'] = sum(1 for l in r['log'] if l[0] == 'checkpoint-in-paused-hook')
    if got != exp['enters']:
        # locate first differing continuation
        k = next((i for i, (g, e) in enumerate(zip(got, exp['enters'])) if g != e), min(len(got), len(exp['enters'])))
        prev = prog['steps'][k - 1]['ret'] if k > 0 else ['start']
        viol.append(V('continuation-args', 'continuation-args:%s:%s' % (_shape(prev), mode),
                      'after %s the continuation received %s, expected %s (chain %s, crash points %s)' % (
                          prev, got[k] if k < len(got) else '<not run>', exp['enters'][k] if k < len(exp['enters']) else '<nothing>', shape, case['crash'])))
    else:
        fin = r['views']
        st, payload = exp['final']
        last = prog['steps'][-1]['ret']
        if fin['state'] != st:
            viol.append(V('terminal-state', 'terminal-state:%s:%s:%s' % (_shape(last), fin['state'], mode), 'after %s the process is %s, expected %s' % (last, fin['state'], st)))
        elif st == 'finished':
            if fin['result'] != ['ok', payload['result']] or fin['successful'] != ['ok', payload['successful']]:
                viol.append(V('terminal-result', 'terminal-result:%s:%s' % (_shape(last), mode), 'result()/successful() %s/%s expected %s' % (fin['result'], fin['successful'], payload)))
            if not payload['successful']:
                obs['unsuccessful'] = 1
        elif st == 'killed':
            km = fin['killed_msg']
            if km[0] != 'ok' or not isinstance(km[1], dict) or km[1].get('message') != payload['text']:
                viol.append(V('terminal-killmsg', 'terminal-killmsg:%s' % mode, 'killed_msg() %s expected text %r' % (km, payload['text'])))
        elif st == 'excepted':
            if fin['exception'] != ['ProgError', payload['tag']]:
                viol.append(V('terminal-exception', 'terminal-exception:%s' % mode, 'exception() %s expected ProgError(%s)' % (fin['exception'], payload['tag'])))
        obs['terminal'][st] = 1
    obs['continuations'] = len(got)
    obs['kwargs_checked'] = sum(1 for e in exp['enters'] if e[2])
    for has, _v in resumes:
        obs['resume_with_value' if has else 'resume_without_value'] += 1
    obs['restored_runs'] = 1 if r['restores'] else 0
    obs['mutating_chains'] = int(bool(prog.get('mutate_args')) and bool(r['restores']))
    res = {'viol': viol, 'obs': obs, 'key': [prog, case['crash'], case.get('resume_mode'), case.get('exit_crash'), case.get('paused_crash')], 'nontrivial': len(got) > 1 or bool(obs['terminal'])}
    res['sample'] = {'chain': [s['ret'] for s in prog['steps']], 'resumes': resumes, 'crash_points': case['crash'], 'received': got,
                     'final': [r['views']['state'], r['views']['result']], 'restores': r['restores']}
    return res


def _shape(ret):
    if ret[0] == 'cont':
        return 'cont(%dpos,%dkw)' % (len(ret[1]), len(ret[2]))
    if ret[0] == 'wait':
        return 'wait'
    return ret[0]
