"""Oracles over lifecycle records (see lifecycle.Run.record()).  Each judge returns a list of
violations ``{'kind', 'sig', 'msg'}``; ``sig`` is a mechanism-level signature (no random values)."""
from . import programs

LIVE = ('created', 'running', 'waiting')
TERMINAL = ('finished', 'excepted', 'killed')
EDGES = {(None, 'created'), ('created', 'running'),
         ('running', 'running'), ('running', 'waiting'), ('running', 'finished'),
         ('waiting', 'running'), ('waiting', 'waiting'), ('waiting', 'finished')}
for _s in LIVE:
    EDGES.add((_s, 'killed'))
    EDGES.add((_s, 'excepted'))


def V(kind, sig, msg):
    return {'kind': kind, 'sig': sig, 'msg': msg}


def _reachable(a, b):
    if a == b:
        return True
    if a in TERMINAL:
        return False
    seen, todo = {a}, [a]
    while todo:
        x = todo.pop()
        for (f, t) in EDGES:
            if f == x and t not in seen:
                seen.add(t)
                todo.append(t)
    return b in seen


def act_pattern(rec, upto=None, plan_only=True):
    """[(kind@phase)] of applied actions (mechanism terms) -- used in signatures."""
    out = []
    for a in rec['acts']:
        if upto is not None and a['n'] > upto:
            break
        if plan_only and a['via'] in ('drain', 'probe', 'barrage'):
            continue
        out.append('%s@%s' % (a['kind'], a['phase']))
    return out


def _last_cause(rec, event_index):
    """The most recent stimulus before events[event_index]: an applied action or a callback."""
    for e in reversed(rec['events'][:event_index]):
        if e[0] == 'act':
            return '%s@%s' % (e[2], e[4])
        if e[0] == 'trace' and e[1] == 'cb':
            return 'callback'
    return 'none'


# ---------------------------------------------------------------------------------------
def judge_c01(rec):
    out = []
    cur = '<none>'
    terminal = None
    first_state = True
    sampled = None
    sampled_fp = None
    for idx, e in enumerate(rec['events']):
        if e[0] == 'state':
            frm, to = e[1], e[2]
            if first_state:
                first_state = False
                if rec['case'].get('recreate') and frm == 'created':
                    pass  # a process recreated from the checkpoint of a CREATED process: observed from there on
                elif (frm, to) != (None, 'created'):
                    out.append(V('bad-initial', 'bad-initial:%s->%s' % (frm, to), 'first transition %s -> %s' % (frm, to)))
            elif frm != cur:
                out.append(V('hook-gap', 'hook-gap:%s!=%s' % (frm, cur), 'ENTERED_STATE from=%s but last entered %s' % (frm, cur)))
            if (frm, to) not in EDGES:
                cause = _last_cause(rec, idx)
                out.append(V('illegal-edge', 'illegal-edge:%s->%s:after=%s' % (frm, to, cause),
                             'transition %s -> %s is not an edge of the lifecycle graph (after %s)' % (frm, to, cause)))
            if terminal is not None and to != terminal:
                pass  # reported through the sampled state below as terminal-changed
            cur = to
            if to in TERMINAL and terminal is None:
                terminal = to
        elif e[0] == 'obs':
            state = e[2]
            if sampled is not None and state != sampled:
                if sampled in TERMINAL:
                    cause = _last_cause(rec, idx)
                    out.append(V('terminal-changed', 'terminal-changed:%s->%s:after=%s' % (sampled, state, cause),
                                 'state changed from terminal %s to %s after %s' % (sampled, state, cause)))
                elif not _reachable(sampled, state):
                    cause = _last_cause(rec, idx)
                    out.append(V('illegal-path', 'illegal-path:%s->%s:after=%s' % (sampled, state, cause),
                                 'sampled state went %s -> %s' % (sampled, state)))
            sampled = state
            if state in TERMINAL and len(e) > 6:
                fp = e[6:]
                if sampled_fp is not None and sampled_fp[0] == state and sampled_fp[1] != fp:
                    cause = _last_cause(rec, idx)
                    out.append(V('terminal-content-changed', 'terminal-content-changed:%s:after=%s' % (state, cause),
                                 'recorded outcome of terminal state %s changed from %s to %s after %s' % (state, sampled_fp[1], fp, cause)))
                sampled_fp = (state, fp)
    fin = rec.get('final')
    if terminal is None:
        # no ENTERED_STATE for a terminal state -- but the listeners may have been told about one (they are told from the
        # entering hook, just before)
        for e in rec['events']:
            if isinstance(e[0], str) and e[0].startswith('listener') and e[1] in TERMINAL:
                terminal = e[1]
                break
    if fin is not None and terminal is not None and fin['state'] != terminal and not any(v['kind'] == 'terminal-changed' for v in out):
        # the terminal state the observers were told about was never seen by a sample: it was left again within the very transition
        # that entered it (and after the state callbacks had been dropped at close)
        out.append(V('terminal-changed', 'terminal-changed:%s->%s:within-transition' % (terminal, fin['state']),
                     'the process entered the terminal state %s (ENTERED_STATE was announced) and ended in %s' % (terminal, fin['state'])))
    if fin is not None and sampled is not None and fin['state'] != sampled:
        if sampled in TERMINAL:
            out.append(V('terminal-changed', 'terminal-changed:%s->%s:after=end' % (sampled, fin['state']),
                         'final state %s differs from terminal %s' % (fin['state'], sampled)))
    return _dedupe(out)


def _dedupe(viols):
    seen, out = set(), []
    for v in viols:
        if v['sig'] not in seen:
            seen.add(v['sig'])
            out.append(v)
    return out


# ---------------------------------------------------------------------------------------
def _history_facts(rec):
    """What the program text and the request log say (independent of the accessors)."""
    program = rec['case']['program']
    facts = {'last_leave': None, 'raised_tags': set(), 'kill_texts': set(), 'harness_cancel': False}
    for e in rec['events']:
        if e[0] == 'trace' and e[1] == 'leave':
            facts['last_leave'] = e[2]
    steps = program['steps'] if 'steps' in program else []
    for st in steps:
        ret = st.get('ret')
        if not isinstance(ret, list) or not ret:
            continue  # (workchain programs: plain return values)
        if ret[0] == 'raise':
            facts['raised_tags'].add(st['ret'][1])
        if ret[0] == 'kill':
            facts['kill_texts'].add(st['ret'][1])
        for _pos, fx in st.get('fx', ()):
            if fx[0] == 'soon' and fx[1] == 'raise':
                facts['raised_tags'].add(fx[2])
            if fx[0] == 'ctl' and fx[1] == 'kill':
                facts['kill_texts'].add(fx[2])
            if fx[0] == 'soon' and fx[1] == 'kill':
                facts['kill_texts'].add(fx[2])
    for a in rec['acts']:
        if a['kind'] == 'kill':
            facts['kill_texts'].add(a['arg'])
        if a['kind'] in ('fail', 'soon_raise'):
            facts['raised_tags'].add(a['arg'])
        if a['kind'] == 'cancel_future':
            facts['harness_cancel'] = True
            facts['kill_texts'].add('Killed by future being cancelled')
    return facts


def judge_c02(rec):
    out = []
    fin = rec['final']
    facts = _history_facts(rec)
    program = rec['case']['program']
    pattern = '+'.join(sorted(set(a['kind'] for a in rec['acts'] if a['via'] not in ('drain',))))
    # conversely: future never resolved while live
    for e in rec['events']:
        if e[0] == 'obs' and e[5] and not e[4] and not facts['harness_cancel']:
            out.append(V('future-done-while-live', 'future-done-while-live:%s' % e[2], 'future done in live state %s' % e[2]))
            break
    # ... also when the harness cancelled the future itself: that is a kill request, so at the next quiescent point the process
    # is terminated (a cancelled future on a process that stays live is a resolved future on a live process)
    for a in rec['acts']:
        if a['kind'] == 'cancel_future' and a['live_before'] and a['ret'] == ['value', True]:
            q = next((q for q in rec['qpoints'] if q['nacts'] > a['n']), None)
            if q is not None and not q['terminated']:
                out.append(V('future-done-while-live', 'future-done-while-live:cancelled:%s' % q['state'],
                             'the future was cancelled but at the next quiescent point the process is still %s (paused=%s)' % (q['state'], q['paused'])))
                break
    if not fin['terminated']:
        return _dedupe(out)
    state = fin['state']
    where = 'state=%s:acts=%s' % (state, pattern)

    def bad(what, msg):
        out.append(V(what, '%s:%s' % (what, where), msg))

    fut = fin['future']
    early = rec.get('early_future')
    if early is not None and not facts['harness_cancel'] and early != fut:
        # a waiter who asked for the future before the run holds the same outcome as one who asks afterwards
        bad('early-future-differs', 'the future handed out before the run ended %s, the one handed out afterwards %s' % (early, fut))
    if state == 'finished':
        if fut != ['result', fin['outputs']]:
            bad('future-mismatch', 'FINISHED but future is %s, outputs %s' % (fut, fin['outputs']))
        if fin['exception'] is not None or fin['killed'] or fin['killed_msg'][0] != 'raise':
            bad('accessor-mismatch', 'FINISHED but exception()/killed()/killed_msg() say %s %s %s' % (
                fin['exception'], fin['killed'], fin['killed_msg']))
        if facts['last_leave'] is not None and 'steps' in program:
            ret = program['steps'][facts['last_leave']]['ret']
            exp = {'value': (ret[1] if len(ret) > 1 else None, True), 'stop': (ret[1], bool(ret[2]) if len(ret) > 2 else True),
                   'unsucc': (ret[1], False)}.get(ret[0])
            if exp is None:
                bad('finished-without-result-command', 'FINISHED but last executed step returned %s' % ret)
            else:
                if rec['case'].get('req_output') and not programs.outputs_valid_req(fin['outputs']):
                    exp = (exp[0], False)  # missing/invalid outputs: result preserved, unsuccessful
                if fin['result'] != ['ok', exp[0]]:
                    bad('result-mismatch', 'result() %s but last step returned %s' % (fin['result'], ret))
                if fin['successful'] != ['ok', exp[1]] or fin['is_successful'] != exp[1]:
                    bad('successful-mismatch', 'successful() %s / is_successful %s but last step returned %s' % (
                        fin['successful'], fin['is_successful'], ret))
    elif state == 'excepted':
        exc = fin['exception']
        if fut != ['exception', exc] or fin['result'] != ['raise', exc]:
            bad('future-mismatch', 'EXCEPTED with %s but future %s, result() %s' % (exc, fut, fin['result']))
        if fin.get('future_exc_is_state_exc') is False:
            bad('exception-identity', 'future().exception() is not the exception object reported by exception()')
        if exc is not None and exc[0] == 'ProgError' and facts['raised_tags'] and exc[1] not in facts['raised_tags']:
            bad('not-original-exception', 'EXCEPTED with %s, which nothing in this run raised (raised: %s)' % (exc, sorted(map(str, facts['raised_tags']))))
        elif exc is not None and exc[0] != 'ProgError' and facts['raised_tags'] and not rec['case'].get('other_exceptions_expected'):
            # the run raised its own (tagged) exceptions only: whatever ended the process is one of them, not an error of the machinery
            bad('not-original-exception', 'EXCEPTED with %s; the exceptions raised in this run were %s' % (exc, sorted(map(str, facts['raised_tags']))))
        if fin['killed'] or fin['is_successful'] or fin['successful'][0] != 'raise':
            bad('accessor-mismatch', 'EXCEPTED but killed()/successful say %s %s %s' % (fin['killed'], fin['is_successful'], fin['successful']))
    elif state == 'killed':
        if fut is None or fut[0] != 'exception' or fut[1][0] != 'KilledError':
            bad('future-mismatch', 'KILLED but future is %s' % (fut,))
        if fin['result'][0] != 'raise' or fin['result'][1][0] != 'KilledError':
            bad('result-mismatch', 'KILLED but result() gives %s' % (fin['result'],))
        if not fin['killed'] or fin['exception'] is not None or fin['is_successful']:
            bad('accessor-mismatch', 'KILLED but killed()=%s exception()=%s' % (fin['killed'], fin['exception']))
        km = fin['killed_msg']
        text = km[1].get('message') if km[0] == 'ok' and isinstance(km[1], dict) else None
        if km[0] != 'ok' or not isinstance(text, (str, type(None))) or text not in facts['kill_texts']:
            bad('kill-text', 'killed_msg() %s carries none of the requested texts %s' % (km, sorted(map(str, facts['kill_texts']))))
        elif fut[0] == 'exception' and fut[1][1] != (text or ''):
            bad('kill-text', 'future KilledError text %r differs from killed_msg text %r' % (fut[1][1], text))
    # listeners: exactly one terminal notification of the right kind
    if rec['case'].get('listener', True):
        term = [e[1] for e in rec['events'] if e[0] == 'listener' and e[1] in TERMINAL]
        if term != [state]:
            bad('terminal-notifications', 'terminal listener notifications %s for final state %s' % (term, state))
        if rec['case'].get('listener') == 'twice':
            gone = [e[1] for e in rec['events'] if e[0] == 'listener_removed']
            if gone:
                bad('terminal-notifications', 'a listener that had been removed again was still notified: %s' % gone)
        if rec['case'].get('listener') in ('raising', 'detaching'):
            for ch in ('listener2', 'listener3'):
                term = [e[1] for e in rec['events'] if e[0] == ch and e[1] in TERMINAL]
                if term != [state]:
                    bad('terminal-notifications', 'with raising listeners: %s received terminal notifications %s for final state %s' % (ch, term, state))
    ncleanup = sum(1 for e in rec['events'] if e[0] == 'cleanup')
    if ncleanup != 1:
        bad('cleanup-count', 'registered cleanup ran %d times' % ncleanup)
    nrelease = sum(1 for e in rec['events'] if e[0] == 'cleanup-release')
    if nrelease != 2 and not rec['case'].get('recreate') and not any(a['kind'] == 'reincarnate' for a in rec.get('acts', ())):
        bad('cleanup-count', 'a bound method registered twice as a cleanup ran %d times' % nrelease)
    if rec['case'].get('failing_cleanups'):
        nafter = sum(1 for e in rec['events'] if e[0] == 'cleanup-after-failing')
        if nafter != 1:
            bad('cleanup-count', 'the cleanup registered after the failing ones ran %d times' % nafter)
    if rec['case'].get('cleanup_chain'):
        n1 = sum(1 for e in rec['events'] if e[0] == 'cleanup-first')
        n2 = sum(1 for e in rec['events'] if e[0] == 'cleanup-late')
        if (n1, n2) != (1, 1):
            bad('cleanup-count', 'a cleanup that registers a further cleanup ran %d times, the one it registered %d times' % (n1, n2))
    if fin['closed'] is not True:
        bad('not-closed', 'process not closed after termination (%s)' % fin['closed'])
    if rec['task'] != ['done']:
        bad('stepping-not-returned', 'step_until_terminated() task is %s after termination at quiescence' % (rec['task'],))
    return _dedupe(out)


# ---------------------------------------------------------------------------------------
def judge_c04(rec):
    out = []
    fin = rec['final']
    for a in rec['acts']:
        if a['kind'] in ('pause', 'kill') and a.get('ret_in_process_loop') is False:
            out.append(V('request-future-foreign-loop', 'request-future-foreign-loop:%s' % a['kind'], 'the future handed back by %s() (requested at %s by code '
                         'running under another current loop) does not belong to the loop of the process: awaiting it there fails' % (a['kind'], a['phase'])))
    facts = _history_facts(rec)
    acts = rec['acts']
    # a kill whose future was cancelled by the requester (before it resolved) was withdrawn; one pending when the stepping task was
    # aborted in the same loop iteration died with the fault (its future says so): neither has to be honoured, but the process must
    # stay killable (probing kill)
    withdrawn = {a.get('target') for a in acts if a['kind'] == 'cancel_ret' and a['ret'] == ['value', True]}
    for a in acts:
        if a['kind'] == 'kill' and a['ret'] == ['future'] and any(
                b['kind'] == 'abort_task' and b['slot'] == a['slot'] and b['n'] > a['n'] for b in acts):
            withdrawn.add(a['n'])
    live_kills = [a for a in acts if a['kind'] in ('kill', 'cancel_future') and a['live_before'] and a['n'] not in withdrawn]
    if not live_kills:
        return out
    pat = lambda a: '>'.join(act_pattern(rec, upto=a['n'], plan_only=False))  # noqa: E731
    for a in live_kills:
        if a['ret'][0] == 'raise':
            out.append(V('kill-raised', 'kill-raised:%s:%s' % (a['ret'][1][0], pat(a)),
                         '%s() raised %s on a live process (%s)' % (a['kind'], a['ret'][1], a['phase'])))
        elif a['kind'] == 'kill' and a['ret'] == ['value', True] and a['state_after'] != 'killed':
            out.append(V('kill-true-not-killed', 'kill-true-not-killed:%s' % pat(a), 'kill() returned True, state %s' % a['state_after']))
        elif a['kind'] == 'kill' and a['ret'] == ['value', False]:
            out.append(V('kill-false-live', 'kill-false-live:%s' % pat(a), 'kill() returned False on a live process'))
        elif a['kind'] == 'kill' and a['ret'][0] == 'value' and a['ret'][1] is not True:
            out.append(V('kill-return-type', 'kill-return-type:%s' % pat(a), 'kill() on a live process returned %r (neither True nor a future)' % (a['ret'][1],)))
    first = live_kills[0]
    # bounded progress: every quiescent point after a live kill request finds the process terminated
    for q in rec['qpoints']:
        if q['nacts'] > first['n'] and not q['terminated']:
            out.append(V('kill-lost', 'kill-lost:%s:%s' % (q['state'] + ('/paused' if q['paused'] else ''), pat(acts[min(q['nacts'], len(acts)) - 1])),
                         'loop quiescent with the process still %s after %s was requested (acts %s)' % (
                             q['state'], first['kind'], act_pattern(rec, upto=q['nacts'] - 1, plan_only=False))))
            break
    if fin['terminated']:
        ok_excepted = fin['state'] == 'excepted' and fin['exception'] is not None and fin['exception'][0] == 'ProgError'
        if fin['state'] == 'excepted' and fin['exception'] is not None and fin['exception'][0] == 'KilledError' and any(
                a['kind'] == 'child' and a['arg'][1] == 'kill' for a in acts):
            ok_excepted = True  # a workchain whose awaited child was killed fails with that error (C10)
        if fin['state'] != 'killed' and not ok_excepted:
            out.append(V('kill-wrong-end', 'kill-wrong-end:%s:%s:%s' % (fin['state'], (fin['exception'] or ['-'])[0], pat(acts[-1])),
                         'kill requested on a live process but it ended %s (%s)' % (fin['state'], fin['exception'])))
        killed = fin['state'] == 'killed'
        for n, desc in rec['futs']:
            a = acts[n]
            if a['kind'] != 'kill' or n in withdrawn:
                continue
            if desc == ['pending']:
                out.append(V('kill-future-pending', 'kill-future-pending:%s' % pat(a), 'future returned by kill() never resolved'))
            elif (desc == ['result', True]) != killed:
                out.append(V('kill-future-mismatch', 'kill-future-mismatch:%s:%s:%s' % (desc[0], fin['state'], pat(a)),
                             'kill() future is %s but the process ended %s' % (desc, fin['state'])))
        for a in live_kills:
            if a['kind'] == 'kill' and a['ret'] == ['value', True] and not killed:
                out.append(V('kill-true-not-killed', 'kill-true-not-killed:%s' % pat(a), 'kill() returned True but final state %s' % fin['state']))
        if killed:
            km = fin['killed_msg']
            text = km[1].get('message') if km[0] == 'ok' and isinstance(km[1], dict) else '<none>'
            if text not in facts['kill_texts']:
                out.append(V('kill-text', 'kill-text:%s' % pat(acts[-1]), 'killed_msg %s not among requested texts %s' % (km, sorted(map(str, facts['kill_texts'])))))
    return _dedupe(out)


# ---------------------------------------------------------------------------------------
def resume_values_delivered(rec):
    """Per wait (1-based count of entries into WAITING): the first resume that was accepted."""
    vals = {}
    for a in rec['acts']:
        if a['kind'] == 'resume' and a['state_before'] == 'waiting' and a['ret'][0] == 'value':
            if a['nwait'] not in vals:
                vals[a['nwait']] = (a['arg'] is not None, a['arg'][0] if a['arg'] is not None else None)
    return [vals[k] for k in sorted(vals)], vals


def judge_c05(rec, check_trace=True):
    out = []
    acts = rec['acts']
    for a in acts:
        if a['kind'] in ('pause', 'kill') and a.get('ret_in_process_loop') is False:
            out.append(V('request-future-foreign-loop', 'request-future-foreign-loop:%s' % a['kind'], 'the future handed back by %s() (requested at %s by code '
                         'running under another current loop) does not belong to the loop of the process: awaiting it there fails' % (a['kind'], a['phase'])))
    pat = lambda n: '>'.join(act_pattern(rec, upto=n, plan_only=False))  # noqa: E731
    for e in rec['events']:
        if e[0] == 'trace' and e[1] == 'enter' and e[3]:
            out.append(V('ran-while-paused', 'ran-while-paused:enter', 'step %s entered while paused' % e[2]))
        if e[0] == 'trace' and e[1] == 'mid' and e[4]:
            out.append(V('ran-while-paused', 'ran-while-paused:mid', 'step %s running while paused' % e[2]))
    for a in acts:
        if a['kind'] in ('pause', 'play') and a['ret'][0] == 'raise':
            out.append(V('%s-raised' % a['kind'], '%s-raised:%s:%s' % (a['kind'], a['ret'][1][0], pat(a['n'])),
                         '%s() raised %s (%s)' % (a['kind'], a['ret'][1], a['phase'])))
    # play leaves un-paused and cancels a pending pause
    expect_unpaused = None
    open_acts = []  # requests issued from inside another request (listener callbacks) nest
    nested_pause = set()
    for e in rec['events']:
        if e[0] == 'act':
            if e[2] == 'pause':
                expect_unpaused = None
                nested_pause.update(open_acts)
            open_acts.append(e[1])
        elif e[0] == 'acted':
            a = acts[e[1]]
            if e[1] in open_acts:
                open_acts.remove(e[1])
            if a['kind'] == 'play' and a['ret'][0] == 'value' and e[1] not in nested_pause:
                if e[4]:
                    out.append(V('play-left-paused', 'play-left-paused:%s' % pat(a['n']), 'paused right after play()'))
                expect_unpaused = a['n']
        elif e[0] == 'trace' and e[1] == 'ctl' and e[2] == 'pause':
            expect_unpaused = None
        elif e[0] == 'obs' and e[3] and expect_unpaused is not None:
            out.append(V('paused-after-play', 'paused-after-play:%s' % pat(expect_unpaused),
                         'process reports paused at %s although the last request was play()' % (e[1],)))
            expect_unpaused = None
    # a pause takes effect at the next step boundary (unless played / killed / terminated first) and its future says so
    for a in acts:
        if a['kind'] != 'pause' or not a['live_before'] or a['ret'][0] == 'raise' or a['ret'] == ['value', False]:
            continue
        for q in rec['qpoints']:
            if q['nacts'] <= a['n']:
                continue
            between = [b['kind'] for b in acts[a['n'] + 1:q['nacts']]]
            if any(k in ('play', 'kill', 'cancel_future', 'fail') for k in between) or _selfctl_between(rec, a['n'], q):
                break
            if not q['paused'] and not q['terminated']:
                out.append(V('pause-lost', 'pause-lost:%s' % pat(a['n']),
                             'pause() accepted (%s) but at the next quiescent point the process is %s and not paused' % (a['ret'], q['state'])))
            elif q['paused'] and a['ret'] == ['future']:
                desc = [d for n, d in q['futs'] if n == a['n']]
                if desc and desc[0] != ['result', True]:
                    out.append(V('pause-future-mismatch', 'pause-future-mismatch:%s:%s' % (desc[0][0], pat(a['n'])),
                                 'the process paused but the future returned by pause() is %s' % (desc[0],)))
            break
    # status restored by play
    last_status = None
    for e in rec['events']:
        if e[0] == 'trace' and e[1] == 'enter':
            last_status = 'S%d' % e[2]
        elif e[0] == 'acted':
            a = acts[e[1]]
            if a['kind'] == 'play' and a['paused_before'] and a['ret'][0] == 'value' and not a['term_after'] and not a['paused_after']:
                if a['status_after'] != last_status:
                    out.append(V('status-not-restored', 'status-not-restored:%s' % pat(a['n']),
                                 'status after play is %r, before the pause it was %r' % (a['status_after'], last_status)))
    if check_trace and rec.get('inconclusive') is None:
        out.extend(judge_trace(rec, 'C05'))
    return _dedupe(out)


def _selfctl_between(rec, act_n, q):
    """Did the program itself issue play/kill between action act_n and quiescent point q?"""
    seen = False
    for e in rec['events'][:q['nev']]:
        if e[0] == 'act' and e[1] == act_n:
            seen = True
        elif seen and e[0] == 'trace' and e[1] == 'ctl' and e[2] in ('play', 'kill'):
            return True
    return False


def judge_trace(rec, who):
    """Differential against the reference interpreter of the program text."""
    out = []
    program = rec['case']['program']
    if not programs.is_plain(program):
        return out
    seq, _ = resume_values_delivered(rec)
    exp = programs.expected_run(program, seq)
    got = [[e[2], e[5], e[6]] for e in rec['events'] if e[0] == 'trace' and e[1] == 'enter']
    pat = '>'.join(act_pattern(rec, plan_only=True))
    fin = rec['final']
    if rec.get('stuck') is not None:
        out.append(V('run-incomplete', 'run-incomplete:%s:%s' % (rec['stuck']['state'] + ('/paused' if rec['stuck']['paused'] else ''), pat),
                     'after the final play and the owed resumes the loop is quiescent with the process still %s (executed %s)' % (rec['stuck'], got)))
        return out
    if got != exp['enters']:
        kind = 'step-lost' if len(got) < len(exp['enters']) else ('step-repeated' if len(got) > len(exp['enters']) else 'step-args')
        out.append(V(kind, '%s:%s' % (kind, pat), 'executed steps %s, expected %s' % (got, exp['enters'])))
    elif fin['terminated']:
        if fin['outputs'] != exp['outputs']:
            out.append(V('outputs-differ', 'outputs-differ:%s' % pat, 'outputs %s expected %s' % (fin['outputs'], exp['outputs'])))
        st, payload = exp['final']
        if fin['state'] != st:
            out.append(V('final-state', 'final-state:%s!=%s:%s' % (fin['state'], st, pat), 'final state %s expected %s' % (fin['state'], st)))
        elif st == 'finished' and (fin['result'] != ['ok', payload['result']] or fin['is_successful'] != payload['successful']):
            out.append(V('final-result', 'final-result:%s' % pat, 'result %s/%s expected %s' % (fin['result'], fin['is_successful'], payload)))
        elif st == 'excepted' and fin['exception'] != ['ProgError', payload['tag']]:
            out.append(V('final-exception', 'final-exception:%s' % pat, 'exception %s expected ProgError(%s)' % (fin['exception'], payload['tag'])))
        elif st == 'killed' and (fin['killed_msg'][0] != 'ok' or fin['killed_msg'][1].get('message') != payload['text']):
            out.append(V('final-killmsg', 'final-killmsg:%s' % pat, 'killed_msg %s expected %s' % (fin['killed_msg'], payload['text'])))
    return out


# ---------------------------------------------------------------------------------------
def _wc_expected_value(rec, idx, kind):
    if kind in ('child', 'oldchild'):
        for c in rec['extra']['completions']:
            if c[0] == ['c', idx] and c[1][0] != 'value':
                return None
        return {'o': 'child-%s-out' % idx}
    for c in rec['extra']['completions']:
        if c[0] == idx and c[1][0] == 'value':
            return '@NONE' if c[1][1] is None else c[1][1]  # (None is a result like any other: the key is there, and holds None)
    return None


def _wc_failures(rec, step):
    """Effective failing completions of the items registered in ``step``, in delivery order."""
    regs = {(('c', idx) if kind in ('child', 'oldchild') else idx): (key, kind) for key, idx, kind, _h in step['reg']}
    out = []
    for c in rec['extra']['completions']:
        ident = tuple(c[0]) if isinstance(c[0], list) else c[0]
        if ident in regs and c[1][0] in ('exc', 'cancel', 'killed'):
            out.append((ident, c[1]))
    order = [tuple(d) if isinstance(d, list) else d for d in rec['extra'].get('done_order', [])]
    out.sort(key=lambda f: order.index(f[0]) if f[0] in order else len(order))
    return out


def judge_c10(rec, barrier_only=False):
    out = []
    program = rec['case']['program']
    steps = program['steps']
    entered = {}
    for e in rec['events']:
        if e[0] == 'trace' and e[1] == 'enter':
            entered[e[2]] = e
    pat = '>'.join(act_pattern(rec, plan_only=True))
    shape = '+'.join('%s/%s' % (kind, how) for st in steps for _k, _i, kind, how in st['reg'])
    for i, e in sorted(entered.items()):
        ctxvals, dones = e[5], e[6]
        latest = {}
        dup = set()
        for prev in steps[:i]:
            seen_here = set()
            for key, idx, kind, _how in prev['reg']:
                if not dones.get(str(idx), False):
                    out.append(V('barrier-open', 'barrier-open:%s:%s' % (kind, shape),
                                 'step %d entered while awaited %s %s (key %s) is not done; acts %s' % (i, kind, idx, key, pat)))
                if key in seen_here:
                    dup.add(key)
                seen_here.add(key)
                latest[key] = (idx, kind)
        if barrier_only:
            continue
        for key, (idx, kind) in latest.items():
            if key in dup:
                continue
            exp = _wc_expected_value(rec, idx, kind)
            if exp is None:
                continue  # the item did not complete with a value (failures are judged below)
            if exp == '@NONE':
                exp = None
                if key in ctxvals and ctxvals[key] is None:
                    continue
            if ctxvals.get(key, '<missing>') != exp:
                out.append(V('ctx-wrong', 'ctx-wrong:%s:%s' % (kind, shape),
                             'at entry of step %d ctx[%s]=%r, expected %r (acts %s)' % (i, key, ctxvals.get(key), exp, pat)))
    # failures: EXCEPTED with the first failure, the following step never runs
    for k, st in enumerate(steps):
        if k not in entered or not st['reg']:
            continue
        fails = _wc_failures(rec, st)
        if not fails:
            continue
        fin = rec['final']
        if (k + 1) in entered:
            out.append(V('step-after-failure', 'step-after-failure:%s:%s' % (fails[0][1][0], shape),
                         'step %d ran although awaited item %s failed (%s)' % (k + 1, fails[0][0], fails[0][1])))
        if fin['state'] != 'excepted':
            if fin['terminated'] or rec.get('stuck') is not None:
                out.append(V('failure-not-excepted', 'failure-not-excepted:%s:%s:%s' % (fails[0][1][0], fin['state'], shape),
                             'awaited item %s failed (%s) but the workchain is %s (stuck=%s)' % (fails[0][0], fails[0][1], fin['state'], rec.get('stuck'))))
        else:
            exc = fin['exception']
            def matches(f):
                ident, oc = f
                if oc[0] == 'exc':
                    tag = oc[1] if not isinstance(ident, tuple) else 'child-%s-failed' % ident[1]
                    return exc == ['ProgError', tag]
                if oc[0] == 'cancel':
                    return exc is not None and 'Cancel' in exc[0]
                if oc[0] == 'killed':
                    return exc is not None and exc[0] == 'KilledError'
                return False
            if rec['case'].get('race') and exc == ['ProgError', 'cb-fails']:
                pass  # (the callback that fails in the same loop iteration got there first: that is the error then)
            elif not any(matches(f) for f in fails):
                out.append(V('wrong-failure', 'wrong-failure:%s:%s' % (fails[0][1][0], shape),
                             'workchain EXCEPTED with %s, awaited failures were %s' % (exc, fails)))
            elif len(fails) > 1 and not matches(fails[0]) and not any(kind == 'oldchild' for _k, _i, kind, _h in st['reg']):
                # only judged when every failure was delivered while the workchain was already waiting
                idents = {f[0] for f in fails}
                in_wait = all(a['state_before'] == 'waiting' for a in rec['acts'] if a['kind'] in ('complete', 'child')
                              and ((a['arg'][0] if a['kind'] == 'complete' else ('c', a['arg'][0])) in idents))
                if in_wait and not matches(fails[0]):
                    out.append(V('not-first-failure', 'not-first-failure:%s' % shape,
                                 'workchain EXCEPTED with %s but the first failure was %s' % (exc, fails[0])))
        break
    # whatever fails, and in whatever order, stepping the work chain returns normally
    if rec.get('task') and rec['task'][0] == 'exception':
        out.append(V('stepping-raised', 'stepping-raised:%s:%s' % (rec['task'][1][0], shape), 'step_until_terminated() of the work chain raised %s (final state %s, acts %s)' % (
            rec['task'][1], rec['final']['state'] if rec['final'] else None, pat)))
    # the completion of an awaited item is taken in by the barrier whatever came before it: it does not blow up in the event loop
    for err in rec.get('loop_errors') or ():
        if '_awaitable_done' in err['message'] or 'awaitable' in str(err['exception']):
            out.append(V('completion-raised-in-loop', 'completion-raised-in-loop:%s' % str(err['exception']).split('(')[0],
                         'the completion of an awaited item raised in its event-loop callback: %s: %s (acts %s)' % (err['message'][:160], err['exception'], pat)))
            break
    return _dedupe(out)


def judge_c06_wc(rec):
    out = []
    pat = '>'.join(act_pattern(rec, plan_only=True))
    if rec.get('stuck') is not None:
        out.append(V('wakeup-lost', 'wakeup-lost:%s:%s' % (rec['stuck']['state'] + ('/paused' if rec['stuck']['paused'] else ''), pat),
                     'every awaited item completed and the process was played, but the loop is quiescent with the workchain %s' % (rec['stuck'],)))
    return out
