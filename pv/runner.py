"""Check runner: shards cases over worker subprocesses, merges results, applies the
known-findings file, writes evidence and replay files, decides the exit code.

Exit codes: 0 = held on everything explored (KNOWN-FINDING lines may be printed),
            1 = VIOLATION (unlisted), 2 = INCONCLUSIVE.
"""
import argparse
import hashlib
import importlib
import json
import os
import shutil
import subprocess
import sys
import tempfile
import time

from . import VERIF, findings

PY = sys.executable
NWORKERS = max(1, min(16, os.cpu_count() or 1))


def load_monitor(prop_id):
    return importlib.import_module('pv.monitors.%s' % prop_id.lower())


def sig_hash(text):
    return hashlib.sha1(text.encode()).hexdigest()[:12]


def _merge_counts(dst, src):
    for k, v in src.items():
        if isinstance(v, dict):
            _merge_counts(dst.setdefault(k, {}), v)
        else:
            dst[k] = dst.get(k, 0) + v


def _resolve(dotted):
    modname, _, qual = dotted.partition(':')
    obj = importlib.import_module(modname)
    for part in qual.split('.'):
        obj = getattr(obj, part)
    obj = getattr(obj, '__wrapped__', obj)
    obj = getattr(obj, '__func__', obj)
    want = qual.split('.')[-1]
    for _ in range(3):
        # decorators without functools.wraps (plumpy's super_check): the real function sits in the closure
        if getattr(obj, '__code__', None) is not None and obj.__code__.co_name != want and obj.__closure__:
            inner = [c.cell_contents for c in obj.__closure__ if callable(getattr(c, 'cell_contents', None)) and getattr(c.cell_contents, '__name__', None) == want]
            if inner:
                obj = inner[0]
                continue
        break
    code = getattr(obj, '__code__', None)
    if code is None and isinstance(obj, property):
        code = obj.fget.__code__
    return code


class Reach:
    """sys.monitoring PY_START counters on the functions a property is anchored in (evidence that the mechanism was entered)."""

    def __init__(self, anchors):
        self.counts = {}
        self.by_code = {}
        self.tool = None
        mon = getattr(sys, 'monitoring', None)
        if mon is None or not anchors:
            return
        for name in anchors:
            try:
                code = _resolve(name)
            except Exception:  # noqa: BLE001
                code = None
            if code is None:
                self.counts[name + ' (unresolved)'] = 0
                continue
            self.by_code[code] = name
            self.counts[name] = 0
        try:
            mon.use_tool_id(mon.PROFILER_ID, 'pv-reach')
        except ValueError:
            return
        self.tool = mon.PROFILER_ID

        def on_start(code, offset):
            name = self.by_code.get(code)
            if name is not None:
                self.counts[name] += 1

        mon.register_callback(self.tool, mon.events.PY_START, on_start)
        for code in self.by_code:
            mon.set_local_events(self.tool, code, mon.events.PY_START)

    def close(self):
        if self.tool is not None:
            mon = sys.monitoring
            for code in self.by_code:
                mon.set_local_events(self.tool, code, 0)
            mon.register_callback(self.tool, mon.events.PY_START, None)
            mon.free_tool_id(self.tool)
            self.tool = None


def run_cases_local(mod, cases, indices, out, tier='quick'):
    """Worker body: run cases, aggregate, stream violations."""
    reach = Reach(getattr(mod, 'ANCHORS', ()))
    obs = {}
    keys = set()
    nontrivial_keys = set()
    n = 0
    inconc = {}
    samples = []
    viol_seen = {}
    t0 = time.time()
    for idx in indices:
        case = cases[idx]
        try:
            res = mod.run_case(case)
        except BaseException as exc:  # noqa: BLE001  harness failure: never a verdict
            import traceback

            res = {'viol': [], 'inconclusive': 'harness-error', 'obs': {},
                   'error': ''.join(traceback.format_exception(type(exc), exc, exc.__traceback__))[-3000:]}
            out.write(json.dumps({'t': 'harness-error', 'case': case, 'error': res['error']}, default=repr) + '\n')
        n += 1
        _merge_counts(obs, res.get('obs', {}))
        if res.get('inconclusive'):
            inconc[res['inconclusive']] = inconc.get(res['inconclusive'], 0) + 1
        key = res.get('key')
        if key is not None:
            h = sig_hash(key if isinstance(key, str) else json.dumps(key, sort_keys=True, default=repr))
            keys.add(h)
            if res.get('nontrivial', True) and not res.get('inconclusive'):
                nontrivial_keys.add(h)
        if res.get('sample') is not None and not res.get('inconclusive'):
            # keep the two richest (but still readable) cases seen by this worker
            size = len(json.dumps(res['sample'], default=repr))
            if size <= 3000:
                samples.append((size, n, res['sample']))
                samples.sort(key=lambda t: -t[0])
                del samples[2:]
        for v in res.get('viol', ()):
            cnt = viol_seen.get(v['sig'], 0)
            viol_seen[v['sig']] = cnt + 1
            if cnt < 3:
                out.write(json.dumps({'t': 'viol', 'v': v, 'case': case}, default=repr) + '\n')
    reach.close()
    if reach.counts:
        obs['reach'] = dict(reach.counts)
    out.write(json.dumps({'t': 'summary', 'n': n, 'obs': obs, 'keys': sorted(keys), 'nontrivial': sorted(nontrivial_keys),
                          'inconclusive': inconc, 'samples': [t[2] for t in samples], 'viol_counts': viol_seen,
                          'wall': time.time() - t0}, default=repr) + '\n')
    out.flush()


def worker_main(argv):
    prop_id, tier, seed, k, n, outfile = argv[0], argv[1], int(argv[2]), int(argv[3]), int(argv[4]), argv[5]
    mod = load_monitor(prop_id)
    shared = os.path.join(os.environ.get('PV_WORK', ''), 'cases.json')
    if getattr(mod, 'SHARE_CASES', False) and os.path.exists(shared):
        with open(shared) as fh:
            cases = json.load(fh)  # enumerated once by the main process (expensive de-duplicated enumeration)
    else:
        cases = mod.gen_cases(tier, seed)
    with open(outfile, 'w') as out:
        if isinstance(cases, list):
            run_cases_local(mod, cases, range(k, len(cases), n), out, tier)
        else:
            # lazy generator: keep only this shard's cases
            mine = {}
            for idx, case in enumerate(cases):
                if idx % n == k:
                    mine[idx] = case
            run_cases_local(mod, mine, sorted(mine), out, tier)


def main(argv=None):
    ap = argparse.ArgumentParser(prog='check')
    ap.add_argument('property')
    ap.add_argument('--tier', default=os.environ.get('VERIF_TIER', 'quick'), choices=['quick', 'thorough'])
    ap.add_argument('--seed', type=int, default=int(os.environ.get('VERIF_SEED', '0') or 0))
    ap.add_argument('--replay')
    ap.add_argument('--workers', type=int, default=int(os.environ.get('PV_WORKERS', NWORKERS)))
    ap.add_argument('--no-evidence', action='store_true')
    args = ap.parse_args(argv)
    prop_id = args.property.upper()
    mod = load_monitor(prop_id)
    if args.replay:
        return replay(mod, prop_id, args.replay)
    return check(mod, prop_id, args.tier, args.seed, args.workers, not args.no_evidence)


def replay(mod, prop_id, path):
    with open(path) as fh:
        data = json.load(fh)
    res = mod.run_case(data['case'])
    print(json.dumps({'violations': res.get('viol'), 'inconclusive': res.get('inconclusive')}, indent=1, default=repr))
    if hasattr(mod, 'explain'):
        print(mod.explain(data['case']))
    if res.get('viol'):
        known = findings.load()
        unlisted = [v for v in res['viol'] if not findings.is_known(known, prop_id, v['sig'])]
        if unlisted:
            print('VIOLATION property=%s replay=%s' % (prop_id, path))
            return 1
        for v in res['viol']:
            print('KNOWN-FINDING: property=%s %s' % (prop_id, v['sig']))
    return 0


def check(mod, prop_id, tier, seed, nworkers, write_evidence=True):
    t0 = time.time()
    os.environ.setdefault('PYTHONHASHSEED', '0')
    cases = mod.gen_cases(tier, seed)
    work = tempfile.mkdtemp(prefix='pv-%s-' % prop_id)
    if getattr(mod, 'SHARE_CASES', False):
        cases = list(cases)
        with open(os.path.join(work, 'cases.json'), 'w') as fh:
            json.dump(cases, fh)
    if not isinstance(cases, list):
        first, ncases = None, 0
        for case in cases:
            if first is None:
                first = case
            ncases += 1
        cases = [first]
    else:
        ncases = len(cases)
    nworkers = max(1, min(nworkers, ncases))
    env = dict(os.environ)
    env['PYTHONPATH'] = VERIF + os.pathsep + env.get('PYTHONPATH', '')
    env['PYTHONHASHSEED'] = '0'
    env['PV_WORK'] = work
    timeout = getattr(mod, 'TIMEOUT', {}).get(tier, 900 if tier == 'quick' else 7200)
    procs = []
    for k in range(nworkers):
        outfile = os.path.join(work, 'w%d.jsonl' % k)
        errfile = open(os.path.join(work, 'w%d.err' % k), 'w')
        p = subprocess.Popen([PY, '-m', 'pv.worker', prop_id, tier, str(seed), str(k), str(nworkers), outfile],
                             env=env, stdout=errfile, stderr=errfile, cwd=VERIF)
        procs.append((p, outfile, errfile))
    total = {'n': 0, 'obs': {}, 'keys': set(), 'nontrivial': set(), 'inconclusive': {}, 'samples': [], 'viol_counts': {}}
    viols = []
    harness_errors = []
    dead = []
    deadline = t0 + timeout
    for k, (p, outfile, errfile) in enumerate(procs):
        try:
            p.wait(timeout=max(1, deadline - time.time()))
        except subprocess.TimeoutExpired:
            p.kill()
            p.wait()
            dead.append('worker %d timed out' % k)
        errfile.close()
        if p.returncode != 0 and not dead:
            try:
                tail = open(errfile.name).read()[-1500:]
            except OSError:
                tail = ''
            dead.append('worker %d exit %s: %s' % (k, p.returncode, tail))
        got_summary = False
        if os.path.exists(outfile):
            for line in open(outfile):
                try:
                    item = json.loads(line)
                except ValueError:
                    continue
                if item['t'] == 'viol':
                    viols.append(item)
                elif item['t'] == 'harness-error':
                    harness_errors.append(item)
                elif item['t'] == 'summary':
                    got_summary = True
                    total['n'] += item['n']
                    _merge_counts(total['obs'], item['obs'])
                    total['keys'].update(item['keys'])
                    total['nontrivial'].update(item['nontrivial'])
                    _merge_counts(total['inconclusive'], item['inconclusive'])
                    total['samples'].extend(item['samples'])
                    _merge_counts(total['viol_counts'], item['viol_counts'])
        if not got_summary and not any(d.startswith('worker %d ' % k) for d in dead):
            dead.append('worker %d produced no summary' % k)
    shutil.rmtree(work, ignore_errors=True)

    # ---- classify violations --------------------------------------------------------------
    known = findings.load()
    by_sig = {}
    for item in viols:
        by_sig.setdefault(item['v']['sig'], item)
    unlisted, listed = [], []
    for sig, item in sorted(by_sig.items()):
        (listed if findings.is_known(known, prop_id, sig) else unlisted).append(item)
    replay_dir = os.path.join(VERIF, 'replays', prop_id)
    lines = []
    for item in unlisted:
        os.makedirs(replay_dir, exist_ok=True)
        path = os.path.join(replay_dir, '%s.json' % sig_hash(item['v']['sig']))
        with open(path, 'w') as fh:
            json.dump({'property': prop_id, 'sig': item['v']['sig'], 'violation': item['v'], 'case': item['case']}, fh,
                      indent=1, default=repr)
        lines.append('VIOLATION property=%s replay=%s' % (prop_id, os.path.relpath(path, VERIF)))
        lines.append('  kind=%s sig=%s' % (item['v'].get('kind'), item['v']['sig']))
        lines.append('  %s' % str(item['v'].get('msg'))[:400])
    for item in listed:
        lines.append('KNOWN-FINDING: property=%s %s -- %s' % (prop_id, item['v']['sig'], findings.text(known, prop_id, item['v']['sig'])))
    not_seen = [k for k in findings.keys_for(known, prop_id) if k not in by_sig]

    # ---- inconclusive? ----------------------------------------------------------------------
    reasons = []
    if dead:
        reasons.extend(dead)
    if harness_errors:
        reasons.append('%d harness errors, first: %s' % (len(harness_errors), harness_errors[0]['error'][-600:]))
    for name in getattr(mod, 'REQUIRED', ()):
        if _lookup(total['obs'], name) <= 0:
            reasons.append('deciding observation %r never made' % name)
    for name, count in total['obs'].get('reach', {}).items():
        if count <= 0:
            reasons.append('anchored function %s never entered' % name)
    if len(total['nontrivial']) < 2:
        reasons.append('fewer than 2 distinct non-trivial cases')
    conclusive_n = total['n'] - sum(total['inconclusive'].values())
    if total['n'] and conclusive_n < 0.5 * total['n']:
        reasons.append('more than half of the cases inconclusive: %s' % total['inconclusive'])

    wall = time.time() - t0
    coverage = {
        'evaluations': total['n'],
        'distinct_nontrivial': len(total['nontrivial']),
        'distinct_cases': len(total['keys']),
        'rule': getattr(mod, 'RULE', ''),
        'samples': sorted(total['samples'], key=lambda x: -len(json.dumps(x, default=repr)))[:3] or [cases[0] if cases else None],
        'observed': total['obs'],
        'inconclusive_cases': total['inconclusive'],
        'violation_counts_by_signature': total['viol_counts'],
        'known_findings_reobserved': [i['v']['sig'] for i in listed],
        'known_findings_not_observed': not_seen,
        'workers': nworkers,
        'exhaustive': bool(getattr(mod, 'EXHAUSTIVE', {}).get(tier, False)),
        'bounds': getattr(mod, 'BOUNDS', {}).get(tier),
    }
    if hasattr(mod, 'finalize'):
        mod.finalize(coverage, total)
    verdict = 'violated' if unlisted else ('inconclusive' if reasons else 'held')
    evidence = {
        'property_id': prop_id, 'tier': tier, 'seed': seed, 'level': mod.LEVEL, 'coverage': coverage,
        'assumptions': list(getattr(mod, 'ASSUMPTIONS', ())), 'wall_s': round(wall, 2), 'violations': len(unlisted),
        'verdict': verdict, 'inconclusive_reasons': reasons, 'technique': getattr(mod, 'TECHNIQUE', ''),
    }
    if write_evidence:
        os.makedirs(os.path.join(VERIF, 'evidence'), exist_ok=True)
        with open(os.path.join(VERIF, 'evidence', '%s.json' % prop_id), 'w') as fh:
            json.dump(evidence, fh, indent=1, default=repr, sort_keys=True)
    for line in lines:
        print(line)
    print('%s %s tier=%s seed=%d cases=%d distinct_nontrivial=%d wall=%.1fs verdict=%s' % (
        prop_id, getattr(mod, 'TITLE', ''), tier, seed, total['n'], len(total['nontrivial']), wall, verdict))
    obs_line = _flat(total['obs'])
    print('observed: ' + ', '.join('%s=%s' % kv for kv in obs_line[:40]))
    if unlisted:
        return 1
    if reasons:
        print('INCONCLUSIVE property=%s reason=%s' % (prop_id, ' | '.join(reasons)[:1500]))
        return 2
    return 0


def _lookup(obs, dotted):
    cur = obs
    for part in dotted.split('/'):
        if not isinstance(cur, dict) or part not in cur:
            return 0
        cur = cur[part]
    if isinstance(cur, dict):
        return sum(v for v in cur.values() if isinstance(v, (int, float)))
    return cur


def _flat(obs, prefix=''):
    out = []
    for k, v in sorted(obs.items()):
        if isinstance(v, dict):
            out.extend(_flat(v, prefix + k + '/'))
        else:
            out.append((prefix + k, v))
    return out
