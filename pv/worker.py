import sys

import pv  # noqa: F401  (path setup)
from pv import runner

if __name__ == '__main__':
    runner.worker_main(sys.argv[1:])
