"""Checkpoint / abandon / restore engine (C08, C13 restore variant, C07 save points).

run_with_crashes(make_proc, crash_points, resume_script) runs a process; at every boundary
(ENTERED RUNNING / WAITING event) whose 0-based index is in ``crash_points`` it takes a snapshot
*inside* the state-entered notification (where persisters are called in practice), abandons the
running instance (its loop is closed), loads the snapshot in a fresh loop and continues.
"""
import pickle

import plumpy
from plumpy import process_states as ps

from . import lifecycle, programs
from .driver import BudgetExceeded, Driver
from .programs import _jsonable


class Abandon(Exception):
    pass


def _views(proc):
    v = lifecycle.views(proc)
    v['ctx'] = _jsonable(dict(proc.ctx.__dict__)) if getattr(proc, 'ctx', None) is not None else None
    return v


def _plain(x):
    """Mappings of any type as dictionaries (compared without regard to the order of the keys), sequences as lists."""
    import collections.abc
    if isinstance(x, collections.abc.Mapping):
        return {str(k): _plain(v) for k, v in x.items()}
    if isinstance(x, (list, tuple)):
        return [_plain(v) for v in x]
    return _jsonable(x)


def _snapshot_views(proc):
    """What a checkpoint must preserve, as far as it shows through the public accessors."""
    return {'state': proc.state.value, 'outputs': _plain(proc.outputs), 'trace': _plain(list(getattr(proc, 'trace', ()))),
            'ctx': _plain(dict(proc.ctx.__dict__)) if getattr(proc, 'ctx', None) is not None else None,
            'raw_inputs': _plain(proc.raw_inputs) if proc.raw_inputs is not None else None}


class _PauseOnWaiting(plumpy.ProcessListener):
    def on_process_waiting(self, process):
        process.pause('paused by an observer of the wait')


def run_with_crashes(make_proc, crash_points, resume_for_wait, transport=None, budget=4000, max_restores=64, persister=None, lag=0, resume_mode='plain',
                     exit_crashes=(), other_loop_current=False, paused_crashes=(), save_every=False, load_twice=False):
    """make_proc(loop) -> process.  resume_for_wait(j) -> list of resume args for the j-th wait (0-based).

    transport(bundle) -> bundle: how the snapshot travels (default: pickle round trip).

    persister: checkpoints are written with persister.save_checkpoint(process) and read back with load_checkpoint(pid)
    (the real API instead of a Bundle made by the harness); the instance that wrote the checkpoint then runs on for
    ``lag`` more boundaries before it is abandoned -- that work is lost and has to be done again by the restored run."""
    crash_points = set(crash_points)
    paused_crashes = set(paused_crashes)
    want_paused = [False]
    exit_crashes = set(exit_crashes)  # indices of "a RUNNING state is being left" events (the step has returned, the next state is
    exits = [0]                       # not entered yet) at which a checkpoint is taken and the instance abandoned
    lagging = [None]  # [index of the checkpoint boundary, boundaries still to run before the crash]
    boundary = [0]  # global boundary counter across restores
    snapshot = [None]
    log = []
    transport = transport or (lambda b: pickle.loads(pickle.dumps(b)))
    proc = None
    restores = 0
    at_checkpoint = [None]   # what the process reported when the checkpoint was written
    mismatches = []          # ... compared with what the process loaded from it reports
    while True:
        rec = programs.Recorder()
        crash = [False]
        with Driver(budget) as drv:
            programs.CURRENT_REC = rec
            try:
                if snapshot[0] is None:
                    proc = make_proc(drv.loop)
                else:
                    bundle = persister.load_checkpoint(snapshot[0]) if persister is not None else transport(snapshot[0])
                    if other_loop_current:
                        # the checkpoint is loaded for the fresh loop (given in the load context) while some other loop is the
                        # thread's current one
                        import asyncio
                        # (other_loop_current == 'none': no loop at all is current for the thread that loads)
                        other = None if other_loop_current == 'none' else asyncio.new_event_loop()
                        asyncio.set_event_loop(other)
                        try:
                            proc = bundle.unbundle(plumpy.LoadSaveContext(loop=drv.loop))
                        finally:
                            asyncio.set_event_loop(drv.loop)
                            if other is not None:
                                other.close()
                    else:
                        if load_twice:
                            # somebody looked at the checkpoint before (loaded it and dropped the instance without running it):
                            # loading is reading, the bundle is what it was
                            bundle.unbundle(plumpy.LoadSaveContext(loop=drv.loop))
                        proc = bundle.unbundle(plumpy.LoadSaveContext(loop=drv.loop))
                    restores += 1
                    now = _snapshot_views(proc)
                    if at_checkpoint[0] is not None and now != at_checkpoint[0]:
                        keys = sorted(k for k in now if now[k] != at_checkpoint[0][k])
                        mismatches.append([restores, keys, {k: now[k] for k in keys}, {k: at_checkpoint[0][k] for k in keys}])
            except Exception as exc:  # noqa: BLE001
                if snapshot[0] is None:
                    raise
                # a checkpoint that was written cannot be loaded: for the judges, not a fault of the harness
                import traceback
                return {'inconclusive': 'load-raised', 'load_raised': '%s: %s' % (type(exc).__name__, exc), 'where': traceback.format_exc()[-500:],
                        'log': log, 'restores': restores}
            finally:
                programs.CURRENT_REC = None

            def exiting(p, _hook, _next_state):
                if p.state == ps.ProcessState.RUNNING and not crash[0]:
                    idx = exits[0]
                    exits[0] += 1
                    if idx in exit_crashes:
                        at_checkpoint[0] = _snapshot_views(p)
                        snapshot[0] = plumpy.Bundle(p, dereference=isinstance(p, plumpy.ContextMixin))
                        crash[0] = True
                        log.append(['checkpoint-on-exit', idx, len(p.trace)])

            if exit_crashes:
                from plumpy.base.state_machine import StateEventHook
                proc.add_state_event_callback(StateEventHook.EXITING_STATE, exiting)

            def entered(p, frm, to, proc_ref=[None]):
                if to in ('running', 'waiting') and not crash[0]:
                    idx = boundary[0]
                    boundary[0] += 1
                    if lagging[0] is not None:
                        # work done after the checkpoint, about to be lost
                        lagging[0][1] -= 1
                        if lagging[0][1] <= 0:
                            crash[0] = True
                        return
                    if save_every and persister is not None:
                        # the usual arrangement: the running instance writes a checkpoint at every boundary (through the one
                        # persister, under the same key) and is lost at some later point
                        at_checkpoint[0] = _snapshot_views(p)
                        persister.save_checkpoint(p)
                        snapshot[0] = p.pid
                        log.append(['checkpoint', idx, to, len(p.trace), 'every'])
                        if idx in crash_points:
                            crash[0] = True
                        return
                    if idx in crash_points:
                        at_checkpoint[0] = _snapshot_views(p)
                    if idx in crash_points and (persister is not None or lag > 0):
                        if persister is not None:
                            persister.save_checkpoint(p)
                            snapshot[0] = p.pid
                        else:
                            # a plain Bundle kept in memory while the instance runs on (serialised only when it is loaded)
                            snapshot[0] = plumpy.Bundle(p, dereference=isinstance(p, plumpy.ContextMixin))
                        log.append(['checkpoint', idx, to, len(p.trace), 'lag', lag])
                        if lag <= 0:
                            crash[0] = True
                        else:
                            lagging[0] = [idx, lag]
                    elif idx in crash_points:
                        # a process with a context must be dereferenced at once (the saved state only points to the live ctx, see
                        # ContextMixin.save_instance_state); otherwise the plain in-memory bundle is kept and serialised later, so
                        # that values shared with the still running original would show
                        snapshot[0] = plumpy.Bundle(p, dereference=isinstance(p, plumpy.ContextMixin))
                        crash[0] = True
                        log.append(['checkpoint', idx, to, len(p.trace)])

            rec.hooks['entered'] = entered
            if resume_mode == 'pause-on-waiting' and snapshot[0] is None:
                # an observer pauses the process whenever it is told that the process waits (the loop below plays it, then resumes)
                proc.add_process_listener(_PauseOnWaiting())

            def paused_hook(p):
                # "persist when paused": the checkpoint is written from the paused hook of a pause that was requested while the step
                # before was in flight, and the instance is abandoned there
                if want_paused[0] and not crash[0]:
                    want_paused[0] = False
                    at_checkpoint[0] = _snapshot_views(p)
                    snapshot[0] = plumpy.Bundle(p, dereference=isinstance(p, plumpy.ContextMixin))
                    crash[0] = True
                    log.append(['checkpoint-in-paused-hook', len(p.trace), p.state.value])

            rec.hooks['paused'] = paused_hook

            def step_hook(p, i):
                # the pause is requested from inside step i (the step is in flight), once
                if i in paused_crashes and not crash[0] and lagging[0] is None:
                    paused_crashes.discard(i)
                    want_paused[0] = True
                    p.pause('for-checkpoint')

            rec.hooks['step'] = step_hook
            task = drv.loop.create_task(proc.step_until_terminated())
            incon = None
            try:
                for _round in range(200):
                    drv.pump(stop=lambda: crash[0])
                    if crash[0] or proc.has_terminated():
                        break
                    # quiescent and live: owed resume / play
                    if proc.paused:
                        proc.play()
                    elif proc.state == ps.ProcessState.WAITING:
                        j = sum(1 for t in proc.trace if t[0] == 'leave' and t[-1] == 'wait') - 1
                        j = max(j, 0)
                        args = resume_for_wait(j)
                        # 'pause-resume' / 'resume-pause': a pause request lands in the same loop iteration as the resume (the
                        # process is played again at the next quiescent point)
                        if resume_mode == 'pause-resume':
                            proc.pause('with-resume')
                        proc.resume(*args)
                        if resume_mode == 'resume-pause':
                            proc.pause('with-resume')
                        log.append(['resume', j, _jsonable(args)])
                    else:
                        incon = 'stuck:%s' % proc.state.value
                        break
            except BudgetExceeded:
                incon = 'budget'
            if lagging[0] is not None and not incon:
                # the instance that wrote the checkpoint is abandoned now (at the latest when it terminated): its work since
                # the checkpoint is lost, boundaries are counted again from the checkpoint
                crash[0] = True
                boundary[0] = lagging[0][0] + 1
                lagging[0] = None
            result = None
            if not crash[0] or incon:
                result = {'views': _views(proc), 'trace': list(proc.trace), 'task': lifecycle.Run._task_info(task),
                          'loop_errors': [str(c.get('message')) + ':' + repr(c.get('exception')) for c in drv.errors],
                          'restores': restores, 'log': log, 'inconclusive': incon, 'boundaries': boundary[0], 'restore_mismatches': mismatches}
        if result is not None:
            return result
        if restores > max_restores:
            return {'inconclusive': 'too-many-restores', 'log': log}
