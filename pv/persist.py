"""Checkpoint / abandon / restore engine (C08, C13 restore variant, C07 save points).

run_with_crashes(make_proc, crash_points, resume_script) runs a process; at every boundary
(ENTERED RUNNING / WAITING event) whose 0-based index is in ``crash_points`` it takes a snapshot
*inside* the state-entered notification (where persisters are called in practice), abandons the
running instance (its loop is closed), loads the snapshot in a fresh loop and continues.
"""
import pickle

import plumpy
from plumpy import process_states as ps

from . import lifecycle, programs
from .driver import BudgetExceeded, Driver
from .programs import _jsonable


class Abandon(Exception):
    pass


def _views(proc):
    v = lifecycle.views(proc)
    v['ctx'] = _jsonable(dict(proc.ctx.__dict__)) if getattr(proc, 'ctx', None) is not None else None
    return v


def run_with_crashes(make_proc, crash_points, resume_for_wait, transport=None, budget=4000, max_restores=64):
    """make_proc(loop) -> process.  resume_for_wait(j) -> list of resume args for the j-th wait (0-based).

    transport(bundle) -> bundle: how the snapshot travels (default: pickle round trip)."""
    crash_points = set(crash_points)
    boundary = [0]  # global boundary counter across restores
    snapshot = [None]
    log = []
    transport = transport or (lambda b: pickle.loads(pickle.dumps(b)))
    proc = None
    restores = 0
    while True:
        rec = programs.Recorder()
        crash = [False]
        with Driver(budget) as drv:
            programs.CURRENT_REC = rec
            try:
                if snapshot[0] is None:
                    proc = make_proc(drv.loop)
                else:
                    bundle = transport(snapshot[0])
                    proc = bundle.unbundle(plumpy.LoadSaveContext(loop=drv.loop))
                    restores += 1
            finally:
                programs.CURRENT_REC = None

            def entered(p, frm, to, proc_ref=[None]):
                if to in ('running', 'waiting') and not crash[0]:
                    idx = boundary[0]
                    boundary[0] += 1
                    if idx in crash_points:
                        # a process with a context must be dereferenced at once (the saved state only points to the live ctx, see
                        # ContextMixin.save_instance_state); otherwise the plain in-memory bundle is kept and serialised later, so
                        # that values shared with the still running original would show
                        snapshot[0] = plumpy.Bundle(p, dereference=isinstance(p, plumpy.ContextMixin))
                        crash[0] = True
                        log.append(['checkpoint', idx, to, len(p.trace)])

            rec.hooks['entered'] = entered
            task = drv.loop.create_task(proc.step_until_terminated())
            incon = None
            try:
                for _round in range(200):
                    drv.pump(stop=lambda: crash[0])
                    if crash[0] or proc.has_terminated():
                        break
                    # quiescent and live: owed resume / play
                    if proc.paused:
                        proc.play()
                    elif proc.state == ps.ProcessState.WAITING:
                        j = sum(1 for t in proc.trace if t[0] == 'leave' and t[-1] == 'wait') - 1
                        j = max(j, 0)
                        args = resume_for_wait(j)
                        proc.resume(*args)
                        log.append(['resume', j, _jsonable(args)])
                    else:
                        incon = 'stuck:%s' % proc.state.value
                        break
            except BudgetExceeded:
                incon = 'budget'
            result = None
            if not crash[0] or incon:
                result = {'views': _views(proc), 'trace': list(proc.trace), 'task': lifecycle.Run._task_info(task),
                          'loop_errors': [str(c.get('message')) + ':' + repr(c.get('exception')) for c in drv.errors],
                          'restores': restores, 'log': log, 'inconclusive': incon, 'boundaries': boundary[0]}
        if result is not None:
            return result
        if restores > max_restores:
            return {'inconclusive': 'too-many-restores', 'log': log}
