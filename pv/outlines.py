"""Outline ASTs, generators, reference interpreter and generated WorkChain classes (C08, C09).

AST node:  ['step', name] | ['if', [[pred, body], ...], else_body|None] | ['while', pred, body] | ['ret', code|None]
body = list of nodes.  Step / predicate methods consume a *script* given in the inputs
(``preds``: list of truth values, ``rets``: list of step return values); the position in the
script is derived from the call trace kept in ``ctx`` -- i.e. from persisted state only.
An exhausted predicate script yields False (loops terminate), an exhausted return script None.
"""
import functools
import json

import plumpy
from plumpy import if_, return_, while_

from . import generated

NSTEP = 24
NPRED = 16
DECORATED = set()  # names of the steps defined through a functools.wraps decorator


class OutlineBase(plumpy.WorkChain):
    AST = None

    @classmethod
    def define(cls, spec):
        super().define(spec)
        spec.inputs.dynamic = True
        spec.outputs.dynamic = True
        # (OUTLINE_FROM: the outline may name the functions of a base class explicitly -- ``Base.s0`` -- although this class
        # overrides them; what the outline names is what runs)
        spec.outline(*to_outline(getattr(cls, 'OUTLINE_FROM', None) or cls, cls.AST))

    trace = ()

    def __init__(self, *args, **kwargs):
        super().__init__(*args, **kwargs)
        self._attach()

    def load_instance_state(self, saved_state, load_context):
        super().load_instance_state(saved_state, load_context)
        self._attach()

    def _attach(self):
        from . import programs
        programs.ProgBase._attach(self)

    def on_paused(self, msg=None):
        super().on_paused(msg)
        rec = getattr(self, '_rec', None)
        if rec is not None:
            rec.fire('paused', self)

    def _call(self, kind, name):
        tr = self.ctx.setdefault('tr', [])
        if name in DECORATED and getattr(self, '_inside_wrapper', None) != name:
            # the outline names the decorated attribute: what runs must be that, not the function underneath the decorator
            name = name + '!undecorated'
        if kind == 'p':
            idx = sum(1 for t in tr if t.startswith('p'))
            script = self.inputs['preds']
            val = script[idx] if idx < len(script) else False
            style = self.inputs.get('pred_style')
            if style == 'containers':
                # predicates answering with what they found: a (possibly empty) list or string -- truth by length, no __bool__
                val = (['todo'] if idx % 2 else 'yes') if val else ([] if idx % 2 else '')
            elif style == 'objects':
                val = _Found() if val else None
        else:
            idx = sum(1 for t in tr if t.startswith('s'))
            script = self.inputs['rets']
            val = script[idx] if idx < len(script) else None
            if val in SPECIAL_STOPS:
                # the step stops the chain with an object that happens to be awaitable, or a mapping that is no dict (empty or not): a
                # value like any other
                val = SPECIAL_STOPS[val]
            if val == '@WAIT':
                # the step asks for a plain wait (for a reply from outside: somebody resumes the chain) and the outline goes on afterwards
                val = plumpy.Wait(self._do_step, 'waiting for a reply')
            if val == '@TC0':
                val = plumpy.ToContext()  # a context assignment that happens to be empty (a fan-out over zero items): nothing to wait for, the chain goes on
        tr.append(name)
        rec = getattr(self, '_rec', None)
        if rec is not None and kind == 's':
            rec.fire('step', self, idx)  # (the harness may request a pause from inside the step)
        # one list reachable under two context keys, written through the second: the context is one object graph and
        # a checkpoint has to keep it one
        if not hasattr(self.ctx, 'log'):
            self.ctx.log = []
            self.ctx.last = self.ctx.log
        self.ctx.last.append(name)
        self.ctx._n = getattr(self.ctx, '_n', 0) + 1  # (a context key may have any name, also one with a leading underscore)
        # ... and, written the dictionary way, any string at all: 'calls-of.<name>' is no identifier
        self.ctx['calls-of.%s' % name] = self.ctx.get('calls-of.%s' % name, 0) + 1
        # ... or a name that some function on the way may well use for a parameter of its own
        self.ctx['data'] = {'last': name}
        # the entries of the context come in the order in which they were made (a step that goes through them sees that order)
        self.ctx['key_order'] = [k for k in vars(self.ctx) if k.startswith('calls-of.')]
        if kind == 's' and self.inputs.get('midsave_keep') == idx:
            # ... and this one is kept (by whoever asked for it: MIDSNAPS), to go on from should the instance be lost during this step
            import pickle
            MIDSNAPS.append(pickle.dumps(plumpy.Bundle(self)))
        if kind == 's' and self.inputs.get('midsave'):
            # the step saves the workchain from inside itself (e.g. an extra checkpoint under a tag); the saved state is not used
            plumpy.Bundle(self)
        if kind == 's' and self.inputs.get('awaits'):
            # the step also submits something and records it for the context (resolved one loop iteration later); this
            # changes neither the order of the calls nor what the step's return value means
            fut = self.loop.create_future()
            self.loop.call_soon(fut.set_result, 'aw%d' % idx)
            self.to_context(**{'aw%d' % idx: fut})
        if kind == 's' and self.inputs.get('emit'):
            self.out('o_%s_%d' % (name, idx), idx)
        return val


MIDSNAPS = []


class _Handle:
    """A value that is awaitable (a handle on something submitted elsewhere).  Nobody is meant to await it here."""

    def __await__(self):
        if False:
            yield
        return 'the handle was awaited'

    def __repr__(self):
        return '<handle>'


HANDLE = _Handle()
import types as _types
SPECIAL_STOPS = {'@AW': HANDLE, '@MAP0': _types.MappingProxyType({}), '@MAP1': _types.MappingProxyType({'k': 1})}


class _Found:
    """A plain object (always true, defines neither __bool__ nor __len__)."""


def _mk(kind, i):
    name = '%s%d' % (kind, i)

    def fn(self):
        return self._call(kind, name)

    fn.__name__ = name
    if kind == 's' and i % 3 == 1:
        DECORATED.add(name)

        @functools.wraps(fn)
        def wrapper(self, *args, **kwargs):
            self._inside_wrapper = name
            try:
                return fn(self, *args, **kwargs)
            finally:
                self._inside_wrapper = None

        return wrapper
    return fn


for _i in range(NSTEP):
    setattr(OutlineBase, 's%d' % _i, _mk('s', _i))
for _i in range(NPRED):
    setattr(OutlineBase, 'p%d' % _i, _mk('p', _i))
generated.register(OutlineBase, 'OutlineBase')


def to_outline(cls, body):
    out = []
    for n in body:
        k = n[0]
        if k == 'step':
            out.append(getattr(cls, n[1]))
        elif k == 'if':
            brs = n[1]
            x = if_(getattr(cls, brs[0][0]))(*to_outline(cls, brs[0][1]))
            for p, b in brs[1:]:
                x = x.elif_(getattr(cls, p))(*to_outline(cls, b))
            if n[2] is not None:
                x = x.else_(*to_outline(cls, n[2]))
            out.append(x)
        elif k == 'while':
            out.append(while_(getattr(cls, n[1]))(*to_outline(cls, n[2])))
        elif k == 'ret':
            out.append(return_ if n[1] is None else return_(n[1]))
    return out


_CACHE = {}


class OutlineMustBase(OutlineBase):
    """Declares a required output that no step emits: the chain ends unsuccessful, its result is still the value it stopped with."""

    @classmethod
    def define(cls, spec):
        super().define(spec)
        spec.output('must', valid_type=int)


generated.register(OutlineMustBase, 'OutlineMustBase')


def _override(name):
    def fn(self):
        return self._call('s', name + '!override')

    fn.__name__ = name
    return fn


BASE_AST = [['step', 's0'], ['if', [['p0', [['step', 's1']]]], None]]


def outline_class(ast, must=False, shadowed=False, derived=False):
    if derived:
        # a work chain class derived from a concrete one (which has an outline of its own and has been used already): it runs the
        # outline it declares itself
        key = json.dumps(['derived', ast])
        cls = _CACHE.get(key)
        if cls is None:
            base = outline_class(BASE_AST)
            name = 'Outline_%d' % len(_CACHE)
            cls = type(name, (base,), {'AST': ast})
            generated.register(cls, name)
            _CACHE[key] = cls
        return cls
    key = json.dumps([ast, must, shadowed]) if (must or shadowed) else json.dumps(ast)
    cls = _CACHE.get(key)
    if cls is None:
        name = 'Outline_%d' % len(_CACHE)
        attrs = {'AST': ast}
        if shadowed:
            # a subclass that overrides every third step while its outline names the base class's functions
            attrs['OUTLINE_FROM'] = OutlineBase
            attrs.update({'s%d' % i: _override('s%d' % i) for i in range(0, NSTEP, 3)})
        cls = type(name, (OutlineMustBase if must else OutlineBase,), attrs)
        generated.register(cls, name)
        _CACHE[key] = cls
    return cls


# ---------------------------------------------------------------------------------------
# reference interpreter: the structured program the outline denotes
# ---------------------------------------------------------------------------------------
class _Stop(Exception):
    def __init__(self, value, by_return):
        self.value = value
        self.by_return = by_return


def interpret(ast, preds, rets, max_calls=400):
    """-> (trace, result, how) with how in 'return' | 'value' | 'end' | 'budget'."""
    trace = []
    state = {'p': 0, 's': 0}

    def pred(name):
        v = preds[state['p']] if state['p'] < len(preds) else False
        state['p'] += 1
        trace.append(name)
        if len(trace) > max_calls:
            raise _Stop(None, 'budget')
        return v

    def step(name):
        v = rets[state['s']] if state['s'] < len(rets) else None
        state['s'] += 1
        trace.append(name)
        return None if v in ('@TC0', '@WAIT') else v  # (an empty context assignment is a context assignment: no value; nor is a wait)

    def run(body):
        for n in body:
            k = n[0]
            if k == 'step':
                v = step(n[1])
                if v is not None:
                    raise _Stop(v, 'value')
            elif k == 'if':
                taken = False
                for p, b in n[1]:
                    if pred(p):
                        run(b)
                        taken = True
                        break
                if not taken and n[2] is not None:
                    run(n[2])
            elif k == 'while':
                while pred(n[1]):
                    run(n[2])
            elif k == 'ret':
                raise _Stop(n[1], 'return')

    try:
        run(ast)
        return trace, None, 'end'
    except _Stop as stop:
        return trace, stop.value, stop.by_return


# ---------------------------------------------------------------------------------------
# generators
# ---------------------------------------------------------------------------------------
class Namer:
    def __init__(self):
        self.s = 0
        self.p = 0

    def step(self):
        self.s += 1
        return ['step', 's%d' % (self.s - 1)]

    def pred(self):
        self.p += 1
        return 'p%d' % (self.p - 1)


def random_ast(rng, depth, max_body=3, ret_codes=(None, 3, 0), repeat=0.15):
    """repeat: probability that a step instruction names a step function used before (the same function twice in an outline)."""
    namer = Namer()
    issued = []

    def body(d):
        return [node(d) for _ in range(rng.randint(1, max_body))]

    def node(d):
        r = rng.random()
        if d <= 0 or r < 0.45 or namer.s >= NSTEP - 4 or namer.p >= NPRED - 3:
            if issued and rng.random() < repeat:
                return list(rng.choice(issued))
            issued.append(namer.step())
            return list(issued[-1])
        if r < 0.7:
            brs = [[namer.pred(), body(d - 1)] for _ in range(rng.randint(1, 3))]
            els = body(d - 1) if rng.random() < 0.5 else None
            return ['if', brs, els]
        if r < 0.9:
            return ['while', namer.pred(), body(d - 1)]
        return ['ret', rng.choice(list(ret_codes))]

    ast = body(depth)
    if namer.s > NSTEP or namer.p > NPRED:
        return random_ast(rng, depth - 1, max_body, ret_codes)
    return ast


def shapes(size, depth):
    """All body shapes with exactly ``size`` nodes and nesting <= depth (names filled in later)."""
    memo = {}

    def bodies(n, d):
        # list of bodies (lists of nodes) using exactly n nodes
        key = (n, d)
        if key in memo:
            return memo[key]
        out = []
        if n == 0:
            out = [[]]
        else:
            for first_size in range(1, n + 1):
                for first in nodes(first_size, d):
                    for rest in bodies(n - first_size, d):
                        out.append([first] + rest)
        memo[key] = out
        return out

    def nonempty(n, d):
        return [b for b in bodies(n, d)] if n > 0 else []

    nmemo = {}

    def nodes(n, d):
        key = (n, d)
        if key in nmemo:
            return nmemo[key]
        out = []
        if n == 1:
            out.append(['step'])
            out.append(['ret', None])
            out.append(['ret', 0])
            out.append(['ret', 5])
        if d > 0 and n >= 2:
            inner = n - 1
            # while
            for b in nonempty(inner, d - 1):
                out.append(['while', b])
            # if with one branch, optional else; if/elif
            for b in nonempty(inner, d - 1):
                out.append(['if', [b], None])
            for k in range(1, inner):
                for b1 in nonempty(k, d - 1):
                    for b2 in nonempty(inner - k, d - 1):
                        out.append(['if', [b1], b2])       # if / else
                        out.append(['if', [b1, b2], None])  # if / elif
        nmemo[key] = out
        return out

    return bodies(size, depth)


def name_shape(shape):
    namer = Namer()

    def body(b):
        return [node(n) for n in b]

    def node(n):
        k = n[0]
        if k == 'step':
            return namer.step()
        if k == 'ret':
            return ['ret', n[1]]
        if k == 'while':
            p = namer.pred()
            return ['while', p, body(n[1])]
        if k == 'if':
            brs = []
            for b in n[1]:
                p = namer.pred()
                brs.append([p, body(b)])
            return ['if', brs, body(n[2]) if n[2] is not None else None]
        raise AssertionError(k)

    return body(shape)


def count(ast):
    ns = np = 0
    for n in ast:
        if n[0] == 'step':
            ns += 1
        elif n[0] == 'if':
            for _p, b in n[1]:
                np += 1
                a, c = count(b)
                ns += a
                np += c
            if n[2] is not None:
                a, c = count(n[2])
                ns += a
                np += c
        elif n[0] == 'while':
            np += 1
            a, c = count(n[2])
            ns += a
            np += c
    return ns, np
