"""WorkChain programs that hand futures / child processes to the context (C06, C10, C04).

wc program = {'steps': [ {'reg': [[key, idx, kind, how], ...], 'ret': <value or None>} , ...]}
  kind: 'fut' (plain asyncio future owned by the harness) | 'child' (process launched with self.launch)
  how : 'ret' (returned inside ToContext) | 'call' (self.to_context(key=...)) | 'wait' / 'wait-fut' (in the awaitables of a Wait the step returns)
Outline is the plain sequence of the steps (outline structure is C09's business).

Extra actions understood by WcRun.apply:
  ['complete', idx, ['value', v] | ['exc', tag] | ['cancel']]     -- complete harness future idx
  ['child', idx, 'resume' | 'kill' | 'fail']                        -- let child idx finish / kill it / make it fail
"""
import asyncio
import collections
import json

import plumpy
from plumpy import process_states as ps

from . import generated, lifecycle, programs
from .programs import ProgError, _jsonable

MISSING = '<missing>'
ENV = None  # the WcRun currently executing (steps look up their futures / register children here)


class ChildProc(programs.ProgBase):
    """Child: waits until the harness resumes it; resume('ok') -> emits output and finishes, resume('fail') -> raises."""
    PROGRAM = {'steps': []}

    async def run(self):
        self._t('child-start')
        return ps.Wait(self.after, 'child waiting')

    def after(self, how=None):
        if how == 'fail':
            raise ProgError('child-%s-failed' % self.inputs['idx'])
        self.out('o', 'child-%s-out' % self.inputs['idx'])
        return 'child-%s-result' % self.inputs['idx']


generated.register(ChildProc, 'ChildProc')


class EqChildProc(ChildProc):
    """A job identified by what it is, not by which object it is: any two of them compare (and hash) equal.  Two equal children
    are still two processes with an outcome each."""

    def __eq__(self, other):
        return type(other) is type(self)

    def __hash__(self):
        return hash(type(self))


generated.register(EqChildProc, 'EqChildProc')


class WcBase(plumpy.WorkChain):
    WCPROGRAM = None

    @classmethod
    def define(cls, spec):
        super().define(spec)
        spec.outputs.dynamic = True
        from plumpy import if_, while_
        n = len(cls.WCPROGRAM['steps'])
        wrap = cls.WCPROGRAM.get('wrap') or [None] * n
        outline = []
        for i in range(n):
            step = getattr(cls, 'w%d' % i)
            how = wrap[i] if i < len(wrap) else None
            # the step as the (last) instruction of a control-flow body, followed by the rest of the outline
            if how == 'if':
                outline.append(if_(cls.yes)(step))
            elif how == 'else':
                outline.append(if_(cls.no)(cls.never).else_(step))
            elif how == 'elif':
                outline.append(if_(cls.no)(cls.never).elif_(cls.yes)(step))
            elif how == 'while':
                outline.append(while_(getattr(cls, 'once%d' % i))(step))
            else:
                outline.append(step)
        spec.outline(*outline)

    def __init__(self, *args, **kwargs):
        super().__init__(*args, **kwargs)
        self.trace = []
        self._attach()

    def load_instance_state(self, saved_state, load_context):
        super().load_instance_state(saved_state, load_context)
        self.trace = []
        self._attach()

    _attach = programs.ProgBase._attach
    _t = programs.ProgBase._t

    def yes(self):
        return True

    def no(self):
        return False

    def never(self):
        raise AssertionError('branch of a false condition executed')

    def _wstep(self, i):
        env = ENV
        st = self.WCPROGRAM['steps'][i]
        ctxvals = {}
        dones = {}
        for prev in self.WCPROGRAM['steps'][:i]:
            for key, idx, kind, _how in prev['reg']:
                ctxvals[key] = _jsonable(vars(self.ctx).get(key, MISSING) if key in ('get', 'setdefault') else self.ctx.get(key, MISSING))  # (a key may be called 'get')
                dones[str(idx)] = env.awaitable_done(idx, kind)
        self._t('enter', i, self.paused, self.status, ctxvals, dones, plumpy.Process.current() is self)
        self.set_status('S%d' % i)
        self._rec.fire('step', self, i)
        toctx = {}
        direct = {}
        for idx in st.get('pre', ()):
            # a child launched now but handed to the context only by a later step
            child = self.launch(EqChildProc if self.WCPROGRAM.get('equal_children') else ChildProc, inputs={'idx': idx})
            env.children[idx] = child
            child.future().add_done_callback(lambda _f, idx=idx: env.done_order.append(['c', idx]))
        for key, idx, kind, how in st['reg']:
            if kind == 'fut':
                aw = env.futures[idx]
            elif kind == 'oldchild':
                aw = env.children[idx]
            else:
                aw = self.launch(EqChildProc if self.WCPROGRAM.get('equal_children') else ChildProc, inputs={'idx': idx})
                env.children[idx] = aw
                aw.future().add_done_callback(lambda _f, idx=idx: env.done_order.append(['c', idx]))
            if how == 'call':
                self.to_context(**{key: aw})
            elif how in ('wait', 'wait-fut'):
                # handed over in the awaitables of a wait command the step builds itself (what to_context() builds, without going
                # through it): a child as the process ('wait') or as its future ('wait-fut'), one key or a list of keys each
                if how == 'wait-fut' and isinstance(aw, plumpy.Process):
                    aw = aw.future()
                direct.setdefault(aw, []).append(key)
            else:
                toctx[key] = aw
        self._t('leave', i, 'wc')
        if st.get('ret') is not None:
            return st['ret']
        if direct:
            return plumpy.Wait(self._do_step, 'waiting (awaitables given directly)', {aw: (keys[0] if len(keys) == 1 else keys) for aw, keys in direct.items()})
        if toctx or st.get('empty_tc'):
            # ('empty_tc': the step returns a context assignment in any case, empty when everything was handed over with to_context())
            # ('tc_class': the assignment is an instance of an application's own subclass of ToContext, or of another mapping class of
            # the standard library that is one -- ToContext is the built-in dict, so an OrderedDict is a ToContext)
            return TC_CLASSES[self.WCPROGRAM.get('tc_class', 'plain')](**toctx)
        return None


class NamedAssignment(plumpy.ToContext):
    """An application's own subclass of the context assignment"""


TC_CLASSES = {'plain': plumpy.ToContext, 'subclass': NamedAssignment, 'ordered': collections.OrderedDict}


def _mk(i):
    def w(self):
        return self._wstep(i)

    w.__name__ = 'w%d' % i
    return w


def _mk_once(i):
    def once(self):
        # true the first time only (the position is kept in the context, i.e. in persisted state)
        seen = vars(self.ctx).get('_once%d' % i, False)
        self.ctx['_once%d' % i] = True
        return not seen

    once.__name__ = 'once%d' % i
    return once


for _i in range(8):
    setattr(WcBase, 'w%d' % _i, _mk(_i))
    setattr(WcBase, 'once%d' % _i, _mk_once(_i))
generated.register(WcBase, 'WcBase')

_CACHE = {}


def wc_class(wcprogram):
    key = json.dumps(wcprogram, sort_keys=True)
    cls = _CACHE.get(key)
    if cls is None:
        name = 'WcBase_%d' % len(_CACHE)
        cls = type(name, (WcBase,), {'WCPROGRAM': wcprogram})
        generated.register(cls, name)
        _CACHE[key] = cls
    return cls


def nfutures(wcprogram):
    idxs = [idx for st in wcprogram['steps'] for _k, idx, _kind, _h in st['reg']] + [i for st in wcprogram['steps'] for i in st.get('pre', ())]
    return (max(idxs) + 1) if idxs else 0


class WcRun(lifecycle.Run):
    def _make_class(self):
        return wc_class(self.case['program'])

    def _construct(self, cls, loop):
        global ENV
        ENV = self
        self.futures = [loop.create_future() for _ in range(nfutures(self.case['program']))]
        self.done_order = []  # identities of awaited items in the order their futures actually completed
        for idx, fut in enumerate(self.futures):
            fut.add_done_callback(lambda _f, idx=idx: self.done_order.append(idx))
        self.children = {}
        self.completions = []  # (idx, outcome) in the order they were applied
        if self.case.get('recreate'):
            # the work chain under test is one recreated from the checkpoint of a freshly created one
            saved, programs.CURRENT_REC = programs.CURRENT_REC, None
            try:
                bundle = plumpy.Bundle(cls(loop=loop))
            finally:
                programs.CURRENT_REC = saved
            return bundle.unbundle(plumpy.LoadSaveContext(loop=loop))
        return cls(loop=loop)

    def awaitable_done(self, idx, kind):
        if kind == 'fut':
            return self.futures[idx].done()
        child = self.children.get(idx)
        return child is not None and child.has_terminated()

    def apply(self, act, via='slot', plan_idx=None):
        kind = act[0]
        if kind not in ('complete', 'child'):
            return super().apply(act, via, plan_idx)
        proc = self.proc
        entry = {
            'n': len(self.acts), 'plan_idx': plan_idx, 'slot': self.drv.slot, 'via': via, 'kind': kind, 'arg': _jsonable(act[1:]),
            'phase': lifecycle.phase_of(proc, self.task is not None), 'live_before': not proc.has_terminated(),
            'state_before': proc.state.value, 'paused_before': proc.paused, 'status_before': proc.status,
            'nstate': 0, 'nwait': sum(1 for e in self.rec.events if e[0] == 'state' and e[2] == 'waiting'),
        }
        self.acts.append(entry)
        self.rec.ev('act', entry['n'], kind, _jsonable(act[1:]), entry['phase'])
        try:
            if kind == 'complete':
                fut = self.futures[act[1]]
                outcome = act[2]
                if fut.done():
                    entry['ret'] = ['value', 'already-done']
                else:
                    if outcome[0] == 'value':
                        fut.set_result(programs.special(outcome[1]))  # ('@NOCOPY': a result that cannot be copied)
                    elif outcome[0] == 'exc':
                        # (a tag containing 'unprintable': an error without a printable form)
                        fut.set_exception((programs.UnprintableError if 'unprintable' in str(outcome[1]) else ProgError)(outcome[1]))
                    else:
                        fut.cancel()
                    self.completions.append([act[1], outcome])
                    entry['ret'] = ['value', None]
            else:
                child = self.children.get(act[1])
                if child is None:
                    entry['ret'] = ['value', 'no-child-yet']
                elif act[2] == 'kill':
                    r = child.kill('kill-child-%s' % act[1])
                    entry['ret'] = ['value', 'future' if asyncio.isfuture(r) else r]
                    if not any(c[0] == ('c', act[1]) for c in self.completions):
                        self.completions.append([('c', act[1]), ['killed']])
                else:
                    try:
                        child.resume('fail' if act[2] == 'fail' else 'ok')
                        entry['ret'] = ['value', None]
                        self.completions.append([('c', act[1]), ['exc' if act[2] == 'fail' else 'value']])
                    except Exception as exc:  # noqa: BLE001  (child not waiting yet / already done)
                        entry['ret'] = ['value', 'child-not-waiting:%s' % type(exc).__name__]
        except BaseException as exc:  # noqa: BLE001
            entry['ret'] = ['raise', lifecycle.describe_exc(exc)]
        entry['state_after'] = proc.state.value
        entry['paused_after'] = proc.paused
        entry['status_after'] = proc.status
        entry['term_after'] = proc.has_terminated()
        self.rec.ev('acted', entry['n'], entry['ret'][0], entry['state_after'], entry['paused_after'])
        self.sample('act%d' % entry['n'])
        return entry

    def _owed(self, script):
        proc = self.proc
        if proc.paused:
            return ['play']
        if proc.state == ps.ProcessState.WAITING:
            tries = self.__dict__.setdefault('_owed_tries', 0)
            self._owed_tries = tries + 1
            if tries > 12:
                return None
            # complete the next awaitable that is registered and still open
            for st in self.case['program']['steps']:
                for _key, idx, kind, _how in st['reg']:
                    if kind == 'fut' and not self.futures[idx].done():
                        return ['complete', idx, ['value', 'auto-v%d' % idx]]
                    if kind in ('child', 'oldchild') and idx in self.children and not self.children[idx].has_terminated():
                        if self.children[idx].paused:
                            continue
                        return ['child', idx, 'resume']
            return None
        return None

    def _collect_extra(self):
        out = {'completions': _jsonable(self.completions), 'children': {}, 'done_order': _jsonable(self.done_order)}
        for idx, child in self.children.items():
            out['children'][str(idx)] = {'state': child.state.value, 'outputs': _jsonable(child.outputs),
                                         'exception': lifecycle.describe_exc(child.exception())}
        out['ctx'] = _jsonable(dict(self.proc.ctx.__dict__)) if self.proc.ctx is not None else None
        return out


def run_case(case, budget=4000):
    return WcRun(case, budget).execute().record()
