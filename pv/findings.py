"""KNOWN_FINDINGS.txt: committed, line oriented, never written at run time.

    known: property=<id> key=<signature> <what fails>
    fixed: property=<id> <commit> <what failed>

Only ``known:`` lines suppress (turn a VIOLATION with exactly that signature into a
KNOWN-FINDING line); ``fixed:`` lines are a record and suppress nothing.
"""
import os
import re

from . import VERIF

PATH = os.path.join(VERIF, 'KNOWN_FINDINGS.txt')
_RE = re.compile(r'^known:\s+property=(\S+)\s+key=(\S+)\s*(.*)$')


def load(path=PATH):
    known = {}
    if not os.path.exists(path):
        return known
    for line in open(path):
        m = _RE.match(line.strip())
        if m:
            known.setdefault(m.group(1), {})[m.group(2)] = m.group(3)
    return known


def is_known(known, prop_id, sig):
    return sig in known.get(prop_id, {})


def text(known, prop_id, sig):
    return known.get(prop_id, {}).get(sig, '')


def keys_for(known, prop_id):
    return sorted(known.get(prop_id, {}))
