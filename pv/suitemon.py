"""pytest plugin: the repository's own test suite run under the lifecycle and outcome monitors (C01, C02).

Loaded with ``-p pv.suitemon`` (PYTHONPATH = /verif and the repository's ``src``).  It wraps, from the outside and
without editing the repository, the hooks every ``plumpy.Process`` passes through:

* ``Process.on_entered``      -> one record per state entered: the lifecycle edges of every process the suite creates
* ``Process.on_terminated``   -> the process is remembered for the audit
* end of each test            -> audit of the processes that terminated during the test: do the reports of the outcome agree?

The suite is a different workload from the generated programs (other process classes, work chains with nested outlines,
persisters, launchers), which is its value here; the monitors are the same oracles.  The tests inject faults of their
own (hooks that raise, futures that are replaced): a process whose own hooks raised is classed 'hook-fault' and only its
edges out of *live* states are judged.

Records go to the JSONL file named by ``PV_SUITEMON_OUT``.
"""
import json
import os

import plumpy
from plumpy import processes
from plumpy.process_states import ProcessState

OUT = os.environ.get('PV_SUITEMON_OUT')
TERMINAL = ('finished', 'excepted', 'killed')
EDGES = {(None, 'created'), ('created', 'running'), ('created', 'killed'), ('created', 'excepted'),
         ('running', 'running'), ('running', 'waiting'), ('running', 'finished'), ('running', 'killed'), ('running', 'excepted'),
         ('waiting', 'running'), ('waiting', 'waiting'), ('waiting', 'finished'), ('waiting', 'killed'), ('waiting', 'excepted')}

_records = []
_seen = {}        # id(process) -> {'proc': process, 'last': label, 'terminal': label or None, 'cls': name}
_current_test = [None]


def _label(state):
    try:
        return state.LABEL.value if state is not None else None
    except Exception:  # noqa: BLE001
        return repr(state)


def _emit(rec):
    rec['test'] = _current_test[0]
    _records.append(rec)


_orig_on_entered = processes.Process.on_entered
_orig_on_terminated = processes.Process.on_terminated


def _hook_fault(proc):
    """The process is EXCEPTED because one of its own ``on_*`` overrides (code outside the plumpy package) raised."""
    try:
        exc = proc.exception()
    except Exception:  # noqa: BLE001
        return False
    tb = getattr(exc, '__traceback__', None)
    pkg = os.path.dirname(os.path.abspath(plumpy.__file__))
    while tb is not None:
        code = tb.tb_frame.f_code
        if code.co_name.startswith('on_') and not os.path.abspath(code.co_filename).startswith(pkg):
            return True
        tb = tb.tb_next
    return False


def on_entered(self, from_state):
    info = _seen.setdefault(id(self), {'proc': self, 'last': None, 'terminal': None, 'cls': type(self).__name__, 'edges': 0})
    frm, to = _label(from_state), self.state.value
    info['edges'] += 1
    if (info['terminal'] is not None or (frm, to) not in EDGES) and to == 'excepted' and _hook_fault(self):
        # the suite's own fault injection (a hook of the process raises after the state was entered): C03's subject, not judged here
        _emit({'kind': 'hook-fault-edge', 'cls': info['cls'], 'edge': [frm, to]})
        info['hook_fault'] = True
    elif info['terminal'] is not None:
        _emit({'kind': 'entered-after-terminal', 'cls': info['cls'], 'terminal': info['terminal'], 'edge': [frm, to]})
    elif (frm, to) not in EDGES:
        _emit({'kind': 'illegal-edge', 'cls': info['cls'], 'edge': [frm, to]})
    else:
        _emit({'kind': 'edge', 'edge': [frm, to]})
    info['last'] = to
    if to in TERMINAL and info['terminal'] is None:
        info['terminal'] = to
    return _orig_on_entered(self, from_state)


def on_terminated(self):
    info = _seen.setdefault(id(self), {'proc': self, 'last': None, 'terminal': None, 'cls': type(self).__name__, 'edges': 0})
    info['terminated_hook'] = info.get('terminated_hook', 0) + 1
    return _orig_on_terminated(self)


# NB: both are looked up on the class at call time (``call_with_super_check(self.on_entered, ...)``), so replacing the
# attributes reaches every subclass that does not shadow them -- and those that do call super().
on_entered.__name__ = 'on_entered'
on_terminated.__name__ = 'on_terminated'
processes.Process.on_entered = on_entered
processes.Process.on_terminated = on_terminated


def _audit(info):
    proc = info['proc']
    cls = info['cls']
    try:
        state = proc.state
    except Exception:  # noqa: BLE001
        return
    if not isinstance(state, ProcessState) or state.value not in TERMINAL:
        return
    views = {'state': state.value}
    problems = []
    fut = proc.future()
    try:
        if state == ProcessState.FINISHED:
            if not fut.done() or fut.cancelled() or fut.exception() is not None:
                problems.append('FINISHED but the future is %r' % (fut,))
            elif fut.result() != proc.outputs:
                problems.append('FINISHED but the future resolved to something else than the outputs')
            if proc.exception() is not None or proc.killed():
                problems.append('FINISHED but exception()/killed() say otherwise')
        elif state == ProcessState.EXCEPTED:
            if not fut.done() or fut.cancelled() or fut.exception() is None:
                problems.append('EXCEPTED but the future is %r' % (fut,))
            elif fut.exception() is not proc.exception():
                problems.append('EXCEPTED but the future raises another exception object than exception() reports')
            if proc.killed() or proc.is_successful:
                problems.append('EXCEPTED but killed()/is_successful say otherwise')
        elif state == ProcessState.KILLED:
            if not fut.done() or fut.cancelled() or not isinstance(fut.exception(), plumpy.KilledError):
                problems.append('KILLED but the future is %r' % (fut,))
            if not proc.killed() or proc.exception() is not None:
                problems.append('KILLED but killed()/exception() say otherwise')
        if info['terminal'] is not None and info['terminal'] != state.value and not info.get('hook_fault'):
            problems.append('entered %s, ended %s' % (info['terminal'], state.value))
    except Exception as exc:  # noqa: BLE001
        problems.append('audit raised %r' % (exc,))
    _emit({'kind': 'audit', 'cls': cls, 'views': views, 'problems': problems, 'closed': bool(getattr(proc, '_closed', False)),
           'terminated_hook': info.get('terminated_hook', 0)})


def pytest_runtest_setup(item):
    _current_test[0] = item.nodeid


def pytest_runtest_teardown(item, nextitem):
    for key, info in list(_seen.items()):
        _audit(info)
        del _seen[key]


def pytest_sessionfinish(session, exitstatus):
    if OUT:
        with open(OUT, 'w') as fh:
            for rec in _records:
                fh.write(json.dumps(rec, default=repr) + '\n')
