"""Runs the repository's own test suite under pv.suitemon (C01 / C02) and returns what the monitors recorded."""
import json
import os
import subprocess
import sys
import tempfile

from . import REPO, VERIF


def run(timeout=900):
    """-> {'records': [...], 'returncode': int, 'tail': str} or {'error': reason}"""
    fd, out = tempfile.mkstemp(prefix='suitemon-', suffix='.jsonl', dir=os.environ.get('PV_WORK') or None)
    os.close(fd)
    env = dict(os.environ, PV_SUITEMON_OUT=out, PYTHONPATH=os.pathsep.join([VERIF, os.path.join(REPO, 'src')]), PYTHONHASHSEED='0')
    env.pop('PLUMPY_VERIF', None)
    cmd = [sys.executable, '-m', 'pytest', '-q', '-p', 'no:cacheprovider', '-p', 'pv.suitemon', '--timeout=900', '--deselect', 'tests/rmq', 'tests']
    try:
        proc = subprocess.run(cmd, cwd=REPO, env=env, capture_output=True, text=True, timeout=timeout)
    except subprocess.TimeoutExpired:
        os.unlink(out)
        return {'error': 'suite-timeout'}
    try:
        with open(out) as fh:
            records = [json.loads(line) for line in fh if line.strip()]
    except OSError:
        records = []
    finally:
        try:
            os.unlink(out)
        except OSError:
            pass
    tail = (proc.stdout or '').strip().splitlines()[-1:] or ['']
    if not records:
        return {'error': 'suite-no-records:%s' % tail[0][:120]}
    return {'records': records, 'returncode': proc.returncode, 'tail': tail[0]}
