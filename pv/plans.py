"""Plan generation for the lifecycle monitors: placements of up to K requests at slots."""
import itertools
import random

from . import lifecycle

_REF_CACHE = {}


def reference(program, resume=(), budget=3000):
    """Uninterrupted run (with drain) of the program; cached per worker process."""
    import json

    key = json.dumps([program, list(resume)], sort_keys=True)
    ref = _REF_CACHE.get(key)
    if ref is None:
        ref = lifecycle.run_case({'program': program, 'plan': [], 'drain': True, 'resume': list(resume), 'listener': True})
        _REF_CACHE[key] = ref
    return ref


def slots_of(program, resume=()):
    return reference(program, resume)['slots']


def all_placements(nslots, alphabet, k):
    """All plans of exactly k actions: non-decreasing slot positions x ordered action tuples."""
    for pos in itertools.combinations_with_replacement(range(0, nslots + 1), k):
        for acts in itertools.product(alphabet, repeat=k):
            yield [{'at': p, 'act': list(a)} for p, a in zip(pos, acts)]


def sampled_placements(rng, nslots, alphabet, k, count):
    for _ in range(count):
        pos = sorted(rng.randint(0, nslots) for _ in range(k))
        yield [{'at': p, 'act': list(rng.choice(alphabet))} for p in pos]


def uniq(plan, prefix):
    """Give every text-carrying action a unique text so later values identify their request."""
    out = []
    for n, entry in enumerate(plan):
        act = list(entry['act'])
        if act[0] == 'pause' and len(act) > 1 and act[1] is None:
            pass  # (a pause without a message text is a case of its own: the status is left alone while paused)
        elif act[0] in ('pause', 'kill', 'fail', 'soon_ok', 'soon_raise'):
            # (a text containing 'falsy' keeps that marker: it makes the exception built from it a falsy object)
            act = [act[0], '%s-%s%s%d' % (prefix, 'falsy-' if 'falsy' in str(act[1]) else '', act[0], n)]
        elif act[0] == 'resume' and len(act) > 1 and act[1] is not None and act[1] != [None]:
            # (['resume', [None]] stays: None as the value of the wake-up is a case of its own)
            act = ['resume', ['%s-rv%d' % (prefix, n)]]
        out.append({'at': entry['at'], 'act': act})
    return out


def rng_for(seed, *salt):
    return random.Random('%s/%s' % (seed, '/'.join(str(s) for s in salt)))
