"""Instrumented event loop: slots, quiescence, callback budget (DESIGN.md section 2.1).

A *slot* is the point right after a loop callback that is not the driver's own has run.
Slot 0 is "before anything of the workload ran".  The hook installed with ``on_slot`` is
called at every slot; whatever it does (control requests, completing futures) happens
between two event-loop callbacks, exactly like one more ready callback at that position.
"""
import asyncio
import asyncio.events as _ev
import threading

_ORIG_RUN = _ev.Handle._run
_CURRENT = None  # the driver whose loop is running in this thread (one per worker process)


def _patched_run(self):
    drv = _CURRENT
    if drv is None or drv._thread != threading.get_ident() or id(self) in drv._mine:
        return _ORIG_RUN(self)
    try:
        return _ORIG_RUN(self)
    finally:
        drv._after_callback(self)


_ev.Handle._run = _patched_run


class BudgetExceeded(Exception):
    pass


class Driver:
    def __init__(self, budget=4000):
        self.loop = asyncio.new_event_loop()
        asyncio.set_event_loop(self.loop)
        self.errors = []  # loop exception-handler contexts
        self.loop.set_exception_handler(self._on_loop_error)
        self.slot = 0
        self.budget = budget
        self.on_slot = None
        self._mine = set()
        self._thread = threading.get_ident()
        self._in_hook = False
        self.closed = False

    # -- installation -------------------------------------------------------------------
    def __enter__(self):
        global _CURRENT
        self._prev = _CURRENT
        _CURRENT = self
        return self

    def __exit__(self, *exc):
        global _CURRENT
        _CURRENT = self._prev
        self.close()
        return False

    def close(self):
        if self.closed:
            return
        self.closed = True
        loop = self.loop
        try:
            pending = [t for t in asyncio.all_tasks(loop) if not t.done()]
            for t in pending:
                t.cancel()
            if pending:
                # let cancellations unwind without our hook
                saved, self.on_slot = self.on_slot, None
                for _ in range(20):
                    self._iterate()
                    if all(t.done() for t in pending):
                        break
                self.on_slot = saved
        except BaseException:
            pass
        try:
            loop.close()
        except BaseException:
            pass
        try:
            asyncio.set_event_loop(None)
        except BaseException:
            pass

    # -- observation ----------------------------------------------------------------------
    def _on_loop_error(self, loop, context):
        ctx = dict(context)
        self.errors.append(ctx)

    def _after_callback(self, handle):
        if self._in_hook:
            return
        self.slot += 1
        hook = self.on_slot
        if hook is not None:
            self._in_hook = True
            try:
                hook(self.slot)
            finally:
                self._in_hook = False

    # -- running ----------------------------------------------------------------------------
    def _iterate(self):
        h = self.loop.call_soon(self.loop.stop)
        self._mine.add(id(h))
        try:
            self.loop.run_forever()
        finally:
            self._mine.discard(id(h))

    def quiescent(self):
        loop = self.loop
        return not loop._ready and not loop._scheduled

    def pump(self, stop=None):
        """Run loop iterations until quiescent (or ``stop()`` is true).

        Raises BudgetExceeded when the callback budget is exhausted."""
        while True:
            if stop is not None and stop():
                return 'stop'
            if self.quiescent():
                return 'quiescent'
            if self.slot > self.budget:
                raise BudgetExceeded(self.slot)
            self._iterate()

    def error_exceptions(self):
        out = []
        for ctx in self.errors:
            exc = ctx.get('exception')
            if exc is not None:
                out.append(exc)
        return out


def describe_errors(errors):
    out = []
    for ctx in errors:
        exc = ctx.get('exception')
        out.append({'message': str(ctx.get('message')), 'exception': repr(exc) if exc is not None else None})
    return out
