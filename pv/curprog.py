"""Processes that sample ``Process.current()`` everywhere (C18).

script = {'segments': [[op, ...], ...]}      one segment = one step (Continue between segments)
ops: ['yield'] | ['sample', tag] | ['soon', tag] | ['asoon', tag, n] | ['launch', script] | ['nested', script] | ['parent_soon', tag]
     | ['await_children'] | ['out', port, value] | ['wait']   (wait: Wait command at end of this segment, harness resumes)
Every sample is appended to the module-level LOG as
    [pid, kind, where, Process.current() is self, pid of current or None]
"""
import asyncio

import plumpy
from plumpy import process_states as ps

from . import generated

LOG = []
PROCS = {}


def sample(proc, kind, where):
    cur = plumpy.Process.current()
    LOG.append([proc.raw_inputs['name'], kind, where, cur is proc,
                cur.raw_inputs['name'] if cur is not None else None])


HOOKS = ['on_create', 'on_run', 'on_running', 'on_exit_running', 'on_wait', 'on_waiting', 'on_exit_waiting', 'on_finish', 'on_finished',
         'on_kill', 'on_killed', 'on_except', 'on_excepted', 'on_terminated', 'on_close', 'on_pausing', 'on_paused', 'on_playing',
         'on_output_emitting', 'on_output_emitted']


class SamplingWaiting(ps.Waiting):
    """A waiting state of the process's own (``get_state_classes``): what it does while the process waits is part of the step."""

    async def execute(self):
        sample(self.process, 'step', 'waiting-state:entry')
        result = await super().execute()
        sample(self.process, 'step', 'waiting-state:woken')
        return result


class CurProc(plumpy.Process):
    @classmethod
    def define(cls, spec):
        super().define(spec)
        spec.inputs.dynamic = True
        spec.outputs.dynamic = True

    @classmethod
    def get_state_classes(cls):
        states = super().get_state_classes()
        states[plumpy.ProcessState.WAITING] = SamplingWaiting
        return states

    def __len__(self):
        # a process that is also a container of what it has collected so far: with script option 'falsy' it is empty (and so
        # falsy) all along -- which process is current has nothing to do with truth values
        raw = getattr(self, '_raw_inputs', None)
        return 0 if raw is not None and raw['script'].get('falsy') else 1

    def _child_kwargs(self):
        # with script option 'same_pid' the children are given the id of their parent (records of one job under one id): which process is
        # current is a matter of the object, not of its id
        return {'pid': self.pid} if self.script.get('same_pid') else {}

    def _same_job(self):
        raw = getattr(self, '_raw_inputs', None)
        return bool(raw is not None and raw['script'].get('all_equal'))

    def __eq__(self, other):
        # with script option 'all_equal' the processes are records of one and the same job and compare equal (distinct objects all
        # the same): which process is current is a matter of identity, not of equality
        if self is other:
            return True
        return isinstance(other, CurProc) and self._same_job() and other._same_job()

    def __hash__(self):
        return hash('one-job') if self._same_job() else object.__hash__(self)

    def __init__(self, *args, **kwargs):
        super().__init__(*args, **kwargs)
        self.seg = 0
        self.kids = []
        PROCS[self.raw_inputs['name']] = self

    @property
    def script(self):
        return self.raw_inputs['script']

    async def run(self):
        return await self._segment(0)

    async def cont(self, *args):
        return await self._segment(self.seg)

    def scont(self, *args):
        # a synchronous continuation (no awaits inside): only sync ops are honoured
        return self._segment_sync(self.seg)

    def bound_probe(self, owner, tag):
        """A method of THIS process handed to ``owner.call_soon``: it runs as a callback of ``owner``."""
        target = PROCS.get(owner)
        if target is not None:
            sample(target, 'callback', tag)

    def _after(self, i, wait):
        self.seg = i + 1
        last = self.seg >= len(self.script['segments'])
        if last:
            return 'done-%s' % self.raw_inputs['name']
        nxt_sync = all(op[0] in ('sample', 'soon', 'asoon', 'out', 'parent_soon', 'parent_ctl', 'close_fresh') for op in self.script['segments'][self.seg]) and self.script.get('sync')
        fn = self.scont if nxt_sync else self.cont
        if wait:
            return ps.Wait(fn, 'w')
        return ps.Continue(fn)

    def _segment_sync(self, i):
        sample(self, 'step', 'seg%d:entry' % i)
        for op in self.script['segments'][i]:
            self._op_sync(op, i)
        sample(self, 'step', 'seg%d:exit' % i)
        return self._after(i, False)

    def _op_sync(self, op, i):
        kind = op[0]
        if kind == 'sample':
            sample(self, 'step', 'seg%d:%s' % (i, op[1]))
        elif kind == 'soon':
            self.call_soon(_cb(self, op[1]))
        elif kind == 'asoon':
            # a coroutine callback: it may start while the step that scheduled it is still in flight and outlive it
            self.call_soon(_AsyncCallable(self, op[1], op[2]) if len(op) > 3 and op[3] == 'obj' else _acb(self, op[1], op[2]))
        elif kind == 'out':
            self.out(op[1], op[2])
        elif kind == 'parent_ctl':
            # this process controls its parent from inside its own step (the parent's hooks then run in this process's context)
            parent = PROCS.get(self.raw_inputs.get('parent'))
            if parent is not None and not parent.has_terminated():
                try:
                    getattr(parent, op[1])(*([] if op[1] == 'play' else ['from-child']))
                except Exception:  # noqa: BLE001
                    pass
                sample(self, 'step', 'seg%d:after-parent-%s' % (i, op[1]))
        elif kind == 'parent_soon':
            parent = PROCS.get(self.raw_inputs.get('parent'))
            if parent is not None and not parent.has_terminated():
                tag = 'from-child-%s' % self.raw_inputs['name']
                # (the callback is a plain function, a coroutine function or an object with an async __call__, in turn)
                kind = len(tag + op[1]) % 4
                if kind == 3:
                    # ... or a bound method of this (the child) process: it is the parent's callback all the same
                    parent.call_soon(self.bound_probe, parent.raw_inputs['name'], tag + ':bound-method-of-child')
                else:
                    parent.call_soon(_cb(parent, tag) if kind == 0 else (_acb(parent, tag, 2) if kind == 1 else _AsyncCallable(parent, tag, 2)))
        elif kind == 'close_fresh':
            close_fresh('%s.fresh%d' % (self.raw_inputs['name'], i), self.loop)
            sample(self, 'step', 'seg%d:after-close-fresh' % i)

    async def _segment(self, i):
        sample(self, 'step', 'seg%d:entry' % i)
        wait = False
        for op in self.script['segments'][i]:
            kind = op[0]
            if kind == 'yield':
                await asyncio.sleep(0)
                sample(self, 'step', 'seg%d:after-await' % i)
            elif kind == 'launch':
                child = self.launch(CurProc, inputs={'name': '%s.%d' % (self.raw_inputs['name'], len(self.kids)), 'script': op[1],
                                                      'parent': self.raw_inputs['name']}, **self._child_kwargs())
                self.kids.append(child)
                sample(self, 'step', 'seg%d:after-launch' % i)
            elif kind == 'nested':
                child = CurProc(inputs={'name': '%s.%d' % (self.raw_inputs['name'], len(self.kids)), 'script': op[1],
                                        'parent': self.raw_inputs['name']}, loop=self.loop, **self._child_kwargs())
                self.kids.append(child)
                child.execute()  # re-entrant execution inside this step
                sample(self, 'step', 'seg%d:after-nested' % i)
            elif kind == 'inline':
                # the child is stepped inline, in this step's own task (as ProcessLauncher does), not in a task of its own
                child = CurProc(inputs={'name': '%s.%d' % (self.raw_inputs['name'], len(self.kids)), 'script': op[1],
                                        'parent': self.raw_inputs['name']}, loop=self.loop, **self._child_kwargs())
                self.kids.append(child)
                await child.step_until_terminated()
                sample(self, 'step', 'seg%d:after-inline' % i)
            elif kind == 'orphan':
                # a fire-and-forget process that will wait for ever and that nobody refers to any more (not even its task: asyncio
                # holds tasks weakly) ...
                name = '%s.orphan%d' % (self.raw_inputs['name'], i)
                orphan = CurProc(inputs={'name': name, 'script': {'segments': [[['sample', 'o'], ['wait']], [['sample', 'never']]]}}, loop=self.loop)
                PROCS.pop(name, None)
                self.loop.create_task(orphan.step_until_terminated())
                del orphan
                for _ in range(3):
                    await asyncio.sleep(0)
                # ... is collected while this step is running: its pending step is finalised here, in this step's context
                import gc
                gc.collect()
                sample(self, 'step', 'seg%d:after-collect' % i)
                await asyncio.sleep(0)
                sample(self, 'step', 'seg%d:after-collect-await' % i)
            elif kind == 'leak_cb':
                # a coroutine callback of THIS process that blocks on something nobody else refers to: callback task, coroutine and
                # future are garbage, collected while a step of the same process is running -- the callback's scope is closed
                # here, in this step's context, and must not take this step's scope with it
                async def leaked(loop=self.loop):
                    await loop.create_future()

                self.call_soon(leaked)
                del leaked
                for _ in range(3):
                    await asyncio.sleep(0)
                import gc
                gc.collect()
                sample(self, 'step', 'seg%d:after-collect-own' % i)
                await asyncio.sleep(0)
                sample(self, 'step', 'seg%d:after-collect-own-await' % i)
            elif kind == 'await_children':
                for child in self.kids:
                    if not child.has_terminated():
                        try:
                            await child.future()
                        except Exception:  # noqa: BLE001
                            pass
                        sample(self, 'step', 'seg%d:after-await-child' % i)
            elif kind == 'wait':
                wait = True
            else:
                self._op_sync(op, i)
        sample(self, 'step', 'seg%d:exit' % i)
        return self._after(i, wait)


def close_fresh(name, loop):
    """A process that is created, given a cleanup callback and closed without ever being run (by whoever is executing now)."""
    fresh = CurProc(inputs={'name': name, 'script': {'segments': [[]]}}, loop=loop)
    PROCS.pop(name, None)  # never run: not one of the processes the harness drives
    fresh.add_cleanup(_cb(fresh, 'cleanup'))
    fresh.close()
    # ... and one that has terminated, was saved, is loaded again (the library does not close a process loaded in a terminal state),
    # given a cleanup callback and closed by whoever loaded it
    ended = CurProc(inputs={'name': name + '.ended', 'script': {'segments': [[]]}}, loop=loop)
    PROCS.pop(name + '.ended', None)
    ended.kill('never ran')
    loaded = plumpy.Bundle(ended).unbundle(plumpy.LoadSaveContext(loop=loop))
    loaded.add_cleanup(_cb(loaded, 'cleanup'))
    loaded.close()


def _cb(proc, tag):
    def callback():
        sample(proc, 'callback', tag)

    callback.__name__ = 'cb_%s' % tag
    return callback


def _acb(proc, tag, nyields):
    async def callback():
        sample(proc, 'callback', tag + ':entry')
        for k in range(nyields):
            await asyncio.sleep(0)
            sample(proc, 'callback', '%s:after-await' % tag)

    callback.__name__ = 'acb_%s' % tag
    return callback


class _AsyncCallable:
    """A callback that is an object with an ``async def __call__`` (accepted by call_soon like a coroutine function)."""

    def __init__(self, proc, tag, nyields):
        self.proc, self.tag, self.nyields = proc, tag, nyields
        self.__name__ = 'acallable_%s' % tag

    async def __call__(self):
        sample(self.proc, 'callback', self.tag + ':obj-entry')
        for _k in range(self.nyields):
            await asyncio.sleep(0)
            sample(self.proc, 'callback', '%s:obj-after-await' % self.tag)


def _hook(name):
    def hook(self, *args, **kwargs):
        sample(self, 'hook', name + ':before')
        getattr(super(CurProc, self), name)(*args, **kwargs)
        sample(self, 'hook', name + ':after')
        if name == 'on_running' and self.script.get('hook_nested') and not getattr(self, '_hook_nested_done', False):
            # the hook runs another process to its end, re-entrantly (the loop policy allows it), and that process hands this one a
            # callback: the callback starts while this process is still inside its transition -- it is this process's code all the same
            self._hook_nested_done = True
            child = CurProc(inputs={'name': '%s.h' % self.raw_inputs['name'], 'script': {'segments': [[['parent_soon', 'p'], ['yield'], ['parent_soon', 'pp'], ['yield']]]},
                                    'parent': self.raw_inputs['name']}, loop=self.loop)
            child.execute()
            sample(self, 'hook', name + ':after-nested-run')

    hook.__name__ = name
    return hook


for _h in HOOKS:
    setattr(CurProc, _h, _hook(_h))
generated.register(CurProc, 'CurProc')


class CurListener(plumpy.ProcessListener):
    """Listener samples are recorded, not judged (other objects' code, not in the statement)."""

    def _s(self, proc, what):
        sample(proc, 'listener', what)

    def on_process_running(self, process):
        self._s(process, 'running')

    def on_process_waiting(self, process):
        self._s(process, 'waiting')

    def on_process_paused(self, process):
        self._s(process, 'paused')

    def on_process_played(self, process):
        self._s(process, 'played')

    def on_process_finished(self, process, outputs):
        self._s(process, 'finished')

    def on_process_killed(self, process, msg):
        self._s(process, 'killed')

    def on_process_excepted(self, process, reason):
        self._s(process, 'excepted')
