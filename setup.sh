#!/bin/sh
# Offline setup: nothing to build or install; verify the interpreter, the repository import and the harness import.
cd "$(dirname "$0")" || exit 1
PYTHONPATH="$(pwd)" /venv/bin/python - <<'PY'
import pv, plumpy, kiwipy, yaml
import pv.driver, pv.programs, pv.lifecycle, pv.runner
print('setup ok: plumpy', plumpy.__version__, 'from', plumpy.__file__)
PY
