#!/venv/bin/python
"""Regenerate MANIFEST.json from the monitor modules present in pv/monitors."""
import importlib
import json
import os
import sys

HERE = os.path.dirname(os.path.abspath(__file__))
sys.path.insert(0, HERE)
import pv  # noqa: E402,F401

props = [json.loads(l) for l in open(os.path.join(HERE, 'properties.jsonl'))]
NOT_APPLICABLE = {}
checks = []
na = []
for p in props:
    pid = p['id']
    path = os.path.join(HERE, 'pv', 'monitors', pid.lower() + '.py')
    if not os.path.exists(path):
        na.append({'property_id': pid, 'reason': NOT_APPLICABLE.get(pid, 'monitor not built yet (planned, see DESIGN.md section 3)')})
        continue
    mod = importlib.import_module('pv.monitors.' + pid.lower())
    checks.append({
        'property_id': pid,
        'quick_cmd': './check %s --tier quick' % pid,
        'thorough_cmd': './check %s --tier thorough' % pid,
        'evidence_file': 'evidence/%s.json' % pid,
        'replay_cmd_template': './check %s --replay {path}' % pid,
        'engine': 'pv',
        'level_claimed': {'category': mod.LEVEL, 'text': getattr(mod, 'LEVEL_TEXT', mod.RULE), 'design_ref': 'DESIGN.md section 3, %s' % pid},
        'level_note': '; '.join(getattr(mod, 'ASSUMPTIONS', [])) or 'real plumpy code executed by /venv/bin/python; oracle in pv/',
        'technique': mod.TECHNIQUE,
    })
manifest = {
    'version': 1,
    'setup_cmd': './setup.sh',
    'hooks': {
        'guard': 'PLUMPY_VERIF',
        'enable': 'no source hooks are needed: observation uses public extension points and harness-side wrapping; checks export PLUMPY_VERIF=1 and import plumpy from /repo/src (PV_REPO overrides)',
        'baseline_off_cmd': 'cd /repo && env -u PLUMPY_VERIF /venv/bin/python -m pytest -ra -q -p no:cacheprovider --timeout=900 --continue-on-collection-errors',
        'source_commits': [],
        'add_only': True,
    },
    'engines': [{'name': 'pv', 'path': 'pv/', 'serves_properties': [c['property_id'] for c in checks],
                 'kind_free_text': 'runtime monitoring harness: instrumented asyncio loop (slots, quiescence), generated programs, oracles, sharded runner'}],
    'checks': checks,
    'not_applicable': na,
    'notes': 'Exit codes: 0 held, 1 VIOLATION, 2 INCONCLUSIVE (deciding monitor not reached / worker died). Known findings: KNOWN_FINDINGS.txt.',
}
json.dump(manifest, open(os.path.join(HERE, 'MANIFEST.json'), 'w'), indent=1)
print('checks:', [c['property_id'] for c in checks], 'n/a:', [n['property_id'] for n in na])
